#!/usr/bin/env python3
# Generates MANIFEST.json from the table below (kept in one place so that the
# claimed checks, their notes and the not_applicable list stay consistent).
import json, os
props = [json.loads(l) for l in open('/verif/properties.jsonl')]
ids = [p['id'] for p in props]
claims = json.load(open('/verif/claims.json'))
checks = []
na = []
for pid in ids:
    c = claims.get(pid)
    if c and c.get('claimed'):
        checks.append({
            "property_id": pid,
            "quick_cmd": f"./check {pid} quick",
            "thorough_cmd": f"./check {pid} thorough",
            "evidence_file": f"/verif/evidence/{pid}.json",
            "replay_cmd_template": "./check replay {path}",
            "engine": "gosym",
            "level_claimed": {"category": "model_checking", "text": c['level_text'], "design_ref": c.get('design_ref', 'DESIGN.md §7')},
            "level_note": c['level_note'],
            "technique": c.get('technique', 'bounded symbolic execution of the real Go SSA (own executor gosym) with SMT (z3/cvc5) deciding every verification condition; counterexamples replayed natively'),
        })
    else:
        na.append({"property_id": pid, "reason": (c or {}).get('reason', 'check not built yet in this session; no claim is made')})
m = {
    "version": 1,
    "setup_cmd": "cd /verif/engine && GOFLAGS=-mod=mod GOPROXY=off GOSUMDB=off GOTOOLCHAIN=local go build -o /verif/bin/gosym . && cd /repo && GOFLAGS=-mod=mod GOPROXY=off GOSUMDB=off GOTOOLCHAIN=local go test -vet=off -count=1 -run '^$' . >/dev/null",
    "hooks": {"guard": "verif", "enable": "no hooks in /repo: harnesses enter the build through overlays (packages.Config.Overlay for the engine, go test -overlay for native replays)", "baseline_off_cmd": "cd /repo && go test -vet=off -count=1 ./...", "source_commits": [], "add_only": True},
    "engines": [{"name": "gosym", "path": "/verif/engine", "serves_properties": [c['property_id'] for c in checks], "kind_free_text": "symbolic executor over golang.org/x/tools/go/ssa of /repo's current tree, state merging at joins, SMT-LIB2 to z3 4.8.12 / z3 5.1.0 / cvc5 1.0"}],
    "checks": checks,
    "not_applicable": na,
    "notes": "All checks rebuild the SSA of /repo's working tree on every run. Exit 0 = held within the stated bounds (KNOWN-FINDING lines list recorded defects); exit 1 + VIOLATION line = solver counterexample reproduced natively; exit 2 = inconclusive (unsupported construct, undecided VC, engine/native mismatch) and never accompanied by a VIOLATION line.",
}
json.dump(m, open('/verif/MANIFEST.json', 'w'), indent=1)
print(len(checks), "claimed;", len(na), "not applicable")
