package main

import (
	"encoding/json"
	"flag"
	"fmt"
	"go/types"
	"os"
	"os/exec"
	"path/filepath"
	"regexp"
	"runtime"
	"runtime/pprof"
	"sort"
	"strings"
	"sync"
	"time"

	"golang.org/x/tools/go/packages"
	"golang.org/x/tools/go/ssa"
	"golang.org/x/tools/go/ssa/ssautil"
)

type CaseSpec struct {
	H    string          `json:"h"`
	A    [][]int         `json:"a,omitempty"` // explicit argument lists
	X    [][]int         `json:"x,omitempty"` // cartesian product of value lists
	Opts map[string]int  `json:"opts,omitempty"`
	Solver string        `json:"solver,omitempty"`
	Note string          `json:"note,omitempty"`
}

type PropSpec struct {
	Quick    []CaseSpec     `json:"quick"`
	Thorough []CaseSpec     `json:"thorough"`
	Opts     map[string]int `json:"opts,omitempty"`
	OptsThorough map[string]int `json:"opts_thorough,omitempty"`
	Bounds   string         `json:"bounds,omitempty"`
	BoundsThorough string   `json:"bounds_thorough,omitempty"`
	Assumptions []string    `json:"assumptions,omitempty"`
	Outside  []string       `json:"outside_claim,omitempty"`
	RequireReach []string   `json:"require_reach,omitempty"`
	Solver   string         `json:"solver,omitempty"`
}

type Case struct {
	Harness string
	Args    []int
	Opts    map[string]int
	Solver  string
}

type CaseResult struct {
	Case       Case
	Violations []*VC
	Known      []*VC
	Undecided  []*VC
	Unsupported string
	Reached    map[string]bool
	ReachModel map[string][]uint64
	Observes   map[string][][]uint64 // reach name -> predicted observations under that model (flattened)
	NVC, NUnsat, NConst, NSubsumed int
	States, Instrs, Merges int
	Funcs      []string
	Stubs      []string
	SolverTime float64
	Queries    int
	Wall       float64
	MaxUnwind  int
	NNondet    int
	ObsPred    map[string][]ObsVal
	Portfolio  PortfolioStats
	Cancelled  bool
}

type ObsVal struct {
	Name string   `json:"name"`
	Vals []uint64 `json:"vals"`
}

type KnownFinding struct {
	ID       string `json:"id"`
	Property string `json:"property"`
	Status   string `json:"status"` // known | fixed
	What     string `json:"what"`
	Commit   string `json:"commit,omitempty"`
}

type Loaded struct {
	prog *ssa.Program
	pkg  *ssa.Package
}

func loadRepo(repo, hdir string) (*Loaded, error) {
	overlay := map[string][]byte{}
	files, _ := filepath.Glob(filepath.Join(hdir, "zz_vp_*.go"))
	for _, f := range files {
		base := filepath.Base(f)
		if strings.HasSuffix(base, "_native.go") || strings.HasSuffix(base, "_test.go") {
			continue
		}
		b, err := os.ReadFile(f)
		if err != nil {
			return nil, err
		}
		overlay[filepath.Join(repo, base)] = b
	}
	cfg := &packages.Config{Mode: packages.LoadAllSyntax, Dir: repo, Overlay: overlay,
		Env: append(os.Environ(), "GOFLAGS=-mod=mod", "GOPROXY=off", "GOSUMDB=off", "GOTOOLCHAIN=local")}
	pkgs, err := packages.Load(cfg, ".")
	if err != nil {
		return nil, err
	}
	if packages.PrintErrors(pkgs) > 0 {
		return nil, fmt.Errorf("package errors while loading %s", repo)
	}
	prog, spkgs := ssautil.AllPackages(pkgs, ssa.InstantiateGenerics)
	prog.Build()
	return &Loaded{prog: prog, pkg: spkgs[0]}, nil
}

func expandCases(specs []CaseSpec, propOpts map[string]int) []Case {
	var out []Case
	for _, cs := range specs {
		opts := map[string]int{}
		for k, v := range propOpts {
			opts[k] = v
		}
		for k, v := range cs.Opts {
			opts[k] = v
		}
		var lists [][]int
		lists = append(lists, cs.A...)
		if len(cs.X) > 0 {
			prod := [][]int{{}}
			for _, vals := range cs.X {
				var np [][]int
				for _, p := range prod {
					for _, v := range vals {
						np = append(np, append(append([]int(nil), p...), v))
					}
				}
				prod = np
			}
			lists = append(lists, prod...)
		}
		if len(lists) == 0 {
			lists = [][]int{{}}
		}
		for _, l := range lists {
			out = append(out, Case{Harness: cs.H, Args: l, Opts: opts, Solver: cs.Solver})
		}
	}
	return out
}

func runCase(ld *Loaded, c Case, known map[string]bool, timeoutMs int, defSolver string) (res *CaseResult) {
	t0 := time.Now()
	res = &CaseResult{Case: c}
	sname := defSolver
	if c.Solver != "" {
		sname = c.Solver
	}
	solver, err := StartSolver(solverKind(sname, timeoutMs))
	if err != nil {
		res.Unsupported = "cannot start solver: " + err.Error()
		return
	}
	defer solver.Close()
	solver.hardLimit = time.Duration(timeoutMs)*time.Millisecond*3/2 + 5*time.Second
	if os.Getenv("VP_SMTLOG") != "" {
		f, _ := os.Create(fmt.Sprintf("%s/%s_%v.smt2", os.Getenv("VP_SMTLOG"), c.Harness, c.Args))
		solver.log = f
		defer f.Close()
	}
	ex := &Exec{tb: NewTB(), solver: solver, prog: ld.prog, pkg: ld.pkg, sizes: types.SizesFor("gc", "amd64"),
		fninfo: map[*ssa.Function]*FnInfo{}, globals: map[*ssa.Global]int{}, Kunwind: 64, Kalloc: 4096, Kgrow: 64, MaxDepth: 200,
		knownOK: known, reached: map[string]bool{}, reachModel: map[string][]uint64{}, funcsSeen: map[string]bool{}, stubsSeen: map[string]bool{},
		harness: c.Harness, unwound: map[string]int{}, feasCache: map[int]string{}, tightCache: map[[2]int]int{}}
	if v, ok := c.Opts["unwind"]; ok {
		ex.Kunwind = v
	}
	if v, ok := c.Opts["alloc"]; ok {
		ex.Kalloc = v
	}
	if v, ok := c.Opts["grow"]; ok {
		ex.Kgrow = v
	}
	ex.tb.maxTerms = 4000000
	if v, ok := c.Opts["maxterms"]; ok {
		ex.tb.maxTerms = v
	}
	ex.primaryMs = 3000
	if v, ok := c.Opts["primaryms"]; ok {
		ex.primaryMs = v
	}
	ex.vcTimeout = time.Duration(timeoutMs) * time.Millisecond
	ex.noPortfolio = (sname != "z3" && sname != "z3-new") || os.Getenv("VP_NOPORTFOLIO") != ""
	ex.feasBranches = true
	ex.feasMs = 2000
	if v, ok := c.Opts["feasms"]; ok {
		ex.feasMs = v
	}
	if v, ok := c.Opts["nofeas"]; ok && v != 0 {
		ex.feasBranches = false
	}
	if v, ok := c.Opts["fmtmethods"]; ok && v != 0 {
		ex.fmtCallsMethods = true
	}
	defer func() {
		if r := recover(); r != nil {
			if u, ok := r.(unsupported); ok {
				res.Unsupported = u.msg
				if len(ex.curFn) > 0 {
					res.Unsupported += " (in " + ex.curFn[len(ex.curFn)-1].String() + ")"
				}
			} else {
				buf := make([]byte, 1<<14)
				n := runtime.Stack(buf, false)
				res.Unsupported = fmt.Sprintf("engine panic: %v\n%s", r, buf[:n])
			}
		}
		res.Violations, res.Known, res.Undecided = ex.violations, ex.knownSeen, ex.undecided
		res.Reached, res.ReachModel = ex.reached, ex.reachModel
		res.NVC, res.NUnsat, res.NConst, res.NSubsumed = len(ex.vcs), ex.nVCunsat, ex.nVCconst, ex.nVCsubsumed
		res.States, res.Instrs, res.Merges = ex.nStates, ex.nInstr, ex.nMerges
		for f := range ex.funcsSeen {
			res.Funcs = append(res.Funcs, f)
		}
		for f := range ex.stubsSeen {
			res.Stubs = append(res.Stubs, f)
		}
		res.SolverTime = solver.Time.Seconds() + ex.pstats.Time.Seconds()
		res.Queries = solver.Queries + ex.pstats.Runs
		res.Portfolio = ex.pstats
		res.Wall = time.Since(t0).Seconds()
		res.MaxUnwind = ex.maxUnwind
		res.NNondet = len(ex.nondets)
	}()
	st := ex.newState()
	// package initialisation (error sentinels)
	if init := ld.pkg.Func("init"); init != nil {
		ex.callFunction(st, init, nil, nil)
	}
	// pure standard-library packages whose code is executed as is need their
	// tables initialised (only present when the code under test imports them)
	for _, path := range []string{"unicode/utf8"} {
		if dp := ld.pkg.Prog.ImportedPackage(path); dp != nil {
			if init := dp.Func("init"); init != nil {
				ex.callFunction(st, init, nil, nil)
			}
		}
	}
	ex.globalStores = 0
	fn := ld.pkg.Func(c.Harness)
	if fn == nil {
		res.Unsupported = "no such harness " + c.Harness
		return
	}
	// argument slice
	elems := make([]Value, len(c.Args))
	for i, a := range c.Args {
		elems[i] = ex.i64(a)
	}
	var arg Value = ex.nilSlice(false)
	if len(elems) > 0 {
		id := ex.newArrayObj(st, types.Typ[types.Int], elems, false)
		arg = &SliceV{alts: []SAlt{{g: ex.tb.True, obj: id, off: ex.i64(0)}}, ln: ex.i64(len(elems)), cp: ex.i64(len(elems))}
	}
	ex.callFunction(st, fn, []Value{arg}, nil)
	// predicted observations for the end-of-harness witness
	res.ObsPred = map[string][]ObsVal{}
	for name := range ex.reachModel {
		if !strings.HasPrefix(name, "reach:") {
			continue
		}
		// re-establish the model: assert nondets equal to the model values
		var eqs []*Term
		m := ex.reachModel[name]
		for i, n := range ex.nondets {
			if i < len(m) {
				if n.t.sort.K == SBool {
					eqs = append(eqs, ex.tb.Eq(n.t, ex.tb.Bool(m[i] != 0)))
				} else {
					eqs = append(eqs, ex.tb.Eq(n.t, ex.tb.BV(m[i], n.t.sort.W)))
				}
			}
		}
		for _, o := range ex.observes {
			solver.define(o.pc)
			for _, t := range o.v {
				solver.define(t)
			}
		}
		if solver.Check(eqs...) != "sat" {
			continue
		}
		var obs []ObsVal
		for _, o := range ex.observes {
			pcv, ok := solver.Values([]*Term{o.pc})
			if !ok || pcv[0] == 0 {
				continue
			}
			vals, ok := solver.Values(o.v)
			if !ok {
				continue
			}
			if o.bytes && len(vals) > 0 {
				n := int(vals[0])
				if n > 64 {
					n = 64
				}
				if 1+n < len(vals) {
					vals = vals[:1+n]
				}
			}
			obs = append(obs, ObsVal{Name: o.name, Vals: vals})
		}
		res.ObsPred[name] = obs
	}
	return
}

type Replay struct {
	ID      string   `json:"id"`
	Harness string   `json:"harness"`
	Args    []int    `json:"args"`
	Nondets []uint64 `json:"nondets"`
	Kind    string   `json:"kind"`
	Site    string   `json:"site"`
	Prop    string   `json:"property"`
	Known   string   `json:"known,omitempty"`
	Observes []ObsVal `json:"observes,omitempty"`
}

type NativeOutcome struct {
	ID      string   `json:"id"`
	Status  string   `json:"status"` // ok, assert, panic, assume
	Name    string   `json:"name"`
	Msg     string   `json:"msg"`
	Stack   string   `json:"stack"`
	Observes []ObsVal `json:"observes"`
}

// libraryPanic reports whether the innermost non-runtime frame of a recovered
// panic lies in the library under test and not in a harness file.
func libraryPanic(stack string) bool {
	i := strings.Index(stack, "panic(")
	if i < 0 {
		return false
	}
	for _, line := range strings.Split(stack[i:], "\n") {
		line = strings.TrimSpace(line)
		if !strings.Contains(line, ".go:") {
			continue
		}
		if strings.Contains(line, "/runtime/") || strings.Contains(line, "/go/src/") || strings.Contains(line, "/lib/go") || strings.Contains(line, "/veriftools/go") {
			continue
		}
		return !strings.Contains(line, "zz_vp_")
	}
	return false
}

// runNative replays the given vectors against the native build of repo.
func runNative(repo, hdir string, reps []Replay) (map[string]NativeOutcome, string, error) {
	out := map[string]NativeOutcome{}
	if len(reps) == 0 {
		return out, "", nil
	}
	tmp, err := os.MkdirTemp("", "vpreplay")
	if err != nil {
		return nil, "", err
	}
	defer os.RemoveAll(tmp)
	listPath := filepath.Join(tmp, "list.json")
	b, _ := json.Marshal(reps)
	os.WriteFile(listPath, b, 0o644)
	// overlay: harness files (without symbolic prims) + native prims + replay test + dispatch table
	ov := map[string]string{}
	files, _ := filepath.Glob(filepath.Join(hdir, "zz_vp_*.go"))
	var names []string
	re := regexp.MustCompile(`(?m)^func (Vp\w+)\(a \[\]int\)`)
	for _, f := range files {
		base := filepath.Base(f)
		if strings.HasSuffix(base, "_sym.go") {
			continue
		}
		ov[filepath.Join(repo, base)] = f
		src, _ := os.ReadFile(f)
		for _, m := range re.FindAllSubmatch(src, -1) {
			names = append(names, string(m[1]))
		}
	}
	sort.Strings(names)
	var sb strings.Builder
	sb.WriteString("package rtcp\n\nvar vpDispatch = map[string]func([]int){\n")
	for _, n := range names {
		fmt.Fprintf(&sb, "\t%q: %s,\n", n, n)
	}
	sb.WriteString("}\n")
	disp := filepath.Join(tmp, "zz_vp_dispatch_test.go")
	os.WriteFile(disp, []byte(sb.String()), 0o644)
	ov[filepath.Join(repo, "zz_vp_dispatch_test.go")] = disp
	ovb, _ := json.Marshal(map[string]interface{}{"Replace": ov})
	ovPath := filepath.Join(tmp, "overlay.json")
	os.WriteFile(ovPath, ovb, 0o644)
	var txt string
	var err2 error
	remaining := reps
	for round := 0; round < 12 && len(remaining) > 0; round++ {
		b, _ := json.Marshal(remaining)
		os.WriteFile(listPath, b, 0o644)
		cmd := exec.Command("go", "test", "-v", "-vet=off", "-count=1", "-run", "^TestVPReplay$", "-overlay", ovPath, "-timeout", "20m", ".")
		cmd.Dir = repo
		cmd.Env = append(os.Environ(), "VP_REPLAY_LIST="+listPath, "GOFLAGS=-mod=mod", "GOPROXY=off", "GOSUMDB=off", "GOTOOLCHAIN=local")
		outb, e := cmd.CombinedOutput()
		err2 = e
		txt = string(outb)
		got := 0
		for _, line := range strings.Split(txt, "\n") {
			if i := strings.Index(line, "VPRESULT "); i >= 0 {
				var o NativeOutcome
				if json.Unmarshal([]byte(line[i+len("VPRESULT "):]), &o) == nil {
					out[o.ID] = o
					got++
				}
			}
		}
		if got == 0 {
			break
		}
		// a hanging replay ends the process: run what is left in a new one
		var rest []Replay
		for _, r := range remaining {
			if _, ok := out[r.ID]; !ok {
				rest = append(rest, r)
			}
		}
		remaining = rest
	}
	err = err2
	if len(out) == 0 {
		return out, txt, fmt.Errorf("native replay failed: %v", err)
	}
	return out, txt, nil
}

func main() {
	repo := flag.String("repo", "/repo", "repository under test")
	hdir := flag.String("harness", "/verif/harness", "harness directory")
	prop := flag.String("prop", "", "property id")
	tier := flag.String("tier", "quick", "quick|thorough")
	outDir := flag.String("evidence", "/verif/evidence", "evidence directory")
	repDir := flag.String("replays", "/verif/replays", "replay directory")
	knownPath := flag.String("known", "/verif/known_findings.json", "known findings file")
	only := flag.String("only", "", "run only harnesses matching this substring")
	workers := flag.Int("j", 16, "parallel cases")
	timeout := flag.Int("timeout", 0, "per-query solver timeout in ms")
	replayFile := flag.String("replay", "", "replay a counterexample file natively")
	verbose := flag.Bool("v", false, "verbose")
	noFailFast := flag.Bool("nofailfast", false, "keep running all cases after a violation")
	noNative := flag.Bool("nonative", false, "skip native replays (debugging only; violations are then unconfirmed)")
	cpuprof := flag.String("cpuprofile", "", "write cpu profile")
	flag.Parse()
	if *cpuprof != "" {
		f, _ := os.Create(*cpuprof)
		pprof.StartCPUProfile(f)
		defer pprof.StopCPUProfile()
		go func() {
			time.Sleep(120 * time.Second)
			pprof.StopCPUProfile()
			f.Close()
			fmt.Println("profile written")
			os.Exit(3)
		}()
	}

	if *replayFile != "" {
		b, err := os.ReadFile(*replayFile)
		if err != nil {
			fmt.Println(err)
			os.Exit(2)
		}
		var r Replay
		if err := json.Unmarshal(b, &r); err != nil {
			fmt.Println(err)
			os.Exit(2)
		}
		outs, txt, err := runNative(*repo, *hdir, []Replay{r})
		if err != nil {
			fmt.Println(txt)
			fmt.Println(err)
			os.Exit(2)
		}
		o := outs[r.ID]
		fmt.Printf("replay %s: status=%s name=%s msg=%s\n%s\n", r.ID, o.Status, o.Name, o.Msg, o.Stack)
		if o.Status == "assert" || o.Status == "panic" {
			fmt.Printf("VIOLATION property=%s replay=%s\n", r.Prop, *replayFile)
			os.Exit(1)
		}
		os.Exit(0)
	}

	t0 := time.Now()
	seed := 0
	fmt.Sscan(os.Getenv("VERIF_SEED"), &seed)

	regb, err := os.ReadFile(filepath.Join(*hdir, "registry.json"))
	if err != nil {
		fmt.Println("cannot read registry:", err)
		os.Exit(2)
	}
	var reg map[string]*PropSpec
	if err := json.Unmarshal(regb, &reg); err != nil {
		fmt.Println("registry:", err)
		os.Exit(2)
	}
	ps := reg[*prop]
	if ps == nil {
		fmt.Println("unknown property", *prop)
		os.Exit(2)
	}
	specs := ps.Quick
	bounds := ps.Bounds
	if *tier == "thorough" {
		if len(ps.Thorough) > 0 {
			specs = ps.Thorough
		}
		if ps.BoundsThorough != "" {
			bounds = ps.BoundsThorough
		}
	}
	popts := map[string]int{}
	for k, v := range ps.Opts {
		popts[k] = v
	}
	if *tier == "thorough" {
		for k, v := range ps.OptsThorough {
			popts[k] = v
		}
	}
	cases := expandCases(specs, popts)
	if *only != "" {
		var f []Case
		for _, c := range cases {
			if strings.Contains(c.Harness, *only) {
				f = append(f, c)
			}
		}
		cases = f
	}
	// VERIF_SEED only permutes case order
	if seed != 0 {
		rot := seed % len(cases)
		if rot < 0 {
			rot = -rot
		}
		cases = append(cases[rot:], cases[:rot]...)
	}

	known := map[string]bool{}
	var knownList []KnownFinding
	if b, err := os.ReadFile(*knownPath); err == nil {
		json.Unmarshal(b, &knownList)
		for _, k := range knownList {
			if k.Status == "known" && k.Property == *prop {
				known[k.ID] = true
			}
		}
	}

	ld, err := loadRepo(*repo, *hdir)
	if err != nil {
		fmt.Println("load:", err)
		os.Exit(2)
	}
	tLoad := time.Since(t0).Seconds()

	tmo := *timeout
	if tmo == 0 {
		tmo = 60000
		if *tier == "thorough" {
			tmo = 600000
		}
	}
	defSolver := "z3"
	if ps.Solver != "" {
		defSolver = ps.Solver
	}
	if s := os.Getenv("VP_SOLVER"); s != "" {
		defSolver = s
	}

	results := make([]*CaseResult, len(cases))
	var wg sync.WaitGroup
	sem := make(chan struct{}, *workers)
	var mu sync.Mutex
	for i := range cases {
		wg.Add(1)
		go func(i int) {
			defer wg.Done()
			sem <- struct{}{}
			defer func() { <-sem }()
			if cancelAll.Load() {
				results[i] = &CaseResult{Case: cases[i], Cancelled: true, Reached: map[string]bool{}}
				return
			}
			r := runCase(ld, cases[i], known, tmo, defSolver)
			if strings.HasPrefix(r.Unsupported, "cancelled") {
				r.Cancelled = true
				r.Unsupported = ""
			}
			if len(r.Violations) > 0 && !*noFailFast {
				cancelAll.Store(true)
			}
			results[i] = r
			if *verbose {
				mu.Lock()
				fmt.Printf("case %s%v: vcs=%d unsat=%d viol=%d known=%d undec=%d unsup=%q states=%d instr=%d q=%d solver=%.2fs wall=%.2fs unwind=%d\n",
					r.Case.Harness, r.Case.Args, r.NVC, r.NUnsat, len(r.Violations), len(r.Known), len(r.Undecided), firstLine(r.Unsupported), r.States, r.Instrs, r.Queries, r.SolverTime, r.Wall, r.MaxUnwind)
				mu.Unlock()
			}
		}(i)
	}
	wg.Wait()

	// ------------------------------------------------------------ aggregate
	os.MkdirAll(*repDir, 0o755)
	os.MkdirAll(*outDir, 0o755)
	var reps []Replay
	type pending struct {
		rep  Replay
		vc   *VC
		path string
	}
	var pend []pending
	nViol, nKnown, nUndec, nUnsup := 0, 0, 0, 0
	reachedAll := map[string]bool{}
	funcs := map[string]bool{}
	stubs := map[string]bool{}
	var totStates, totInstr, totVC, totUnsat, totConst, totQ, totMerges, totSubsumed int
	var totSolver float64
	maxUnwind := 0
	var samples []interface{}
	var problems []string
	witnessBudget := 6
	if *tier == "thorough" {
		witnessBudget = 24
	}
	seenViol := map[string]bool{}
	nCancelled := 0
	for _, r := range results {
		if r.Cancelled {
			nCancelled++
		}
		totStates += r.States
		totInstr += r.Instrs
		totVC += r.NVC
		totUnsat += r.NUnsat
		totConst += r.NConst
		totSubsumed += r.NSubsumed
		totQ += r.Queries
		totMerges += r.Merges
		totSolver += r.SolverTime
		if r.MaxUnwind > maxUnwind {
			maxUnwind = r.MaxUnwind
		}
		for _, f := range r.Funcs {
			funcs[f] = true
		}
		for _, f := range r.Stubs {
			stubs[f] = true
		}
		for k := range r.Reached {
			reachedAll[k] = true
		}
		if r.Unsupported != "" {
			nUnsup++
			problems = append(problems, fmt.Sprintf("%s%v: unsupported: %s", r.Case.Harness, r.Case.Args, firstLine(r.Unsupported)))
			if *verbose {
				fmt.Println(r.Unsupported)
			}
		}
		for _, v := range r.Undecided {
			nUndec++
			problems = append(problems, fmt.Sprintf("%s%v: undecided %s %s (%s)", r.Case.Harness, r.Case.Args, v.Kind, v.Site, v.Result))
		}
		mk := func(v *VC, idx int) pending {
			id := fmt.Sprintf("%s-%s-%s-%d", *prop, r.Case.Harness, argStr(r.Case.Args), idx)
			rep := Replay{ID: id, Harness: r.Case.Harness, Args: r.Case.Args, Nondets: v.Model, Kind: v.Kind, Site: v.Site, Prop: *prop, Known: v.Known}
			return pending{rep: rep, vc: v, path: filepath.Join(*repDir, id+".json")}
		}
		for i, v := range r.Violations {
			key := r.Case.Harness + "|" + v.Kind + "|" + v.Site
			if seenViol[key] && len(pend) > 40 {
				continue
			}
			seenViol[key] = true
			pend = append(pend, mk(v, i))
		}
		for i, v := range r.Known {
			pend = append(pend, mk(v, 1000+i))
		}
		// witnesses for translation validation
		for name, m := range r.ReachModel {
			if !strings.HasPrefix(name, "reach:") || witnessBudget <= 0 || r.Cancelled {
				continue
			}
			witnessBudget--
			id := fmt.Sprintf("%s-%s-%s-w-%s", *prop, r.Case.Harness, argStr(r.Case.Args), strings.TrimPrefix(name, "reach:"))
			rep := Replay{ID: id, Harness: r.Case.Harness, Args: r.Case.Args, Nondets: m, Kind: "witness", Site: name, Prop: *prop, Observes: r.ObsPred[name]}
			pend = append(pend, pending{rep: rep, path: ""})
		}
		if len(samples) < 5 {
			samples = append(samples, map[string]interface{}{"harness": r.Case.Harness, "args": r.Case.Args, "nondet_vars": r.NNondet, "vcs": r.NVC, "vcs_unsat": r.NUnsat, "states": r.States, "instructions": r.Instrs, "solver_s": r.SolverTime})
		}
	}
	for _, p := range pend {
		reps = append(reps, p.rep)
	}
	validated := 0
	confirmed := []pending{}
	knownConfirmed := map[string]string{}
	var mismatches []string
	if !*noNative && len(reps) > 0 {
		outs, txt, err := runNative(*repo, *hdir, reps)
		if err != nil {
			problems = append(problems, "native replay: "+err.Error()+"\n"+tail(txt, 30))
		}
		for _, p := range pend {
			o, ok := outs[p.rep.ID]
			if !ok {
				if err == nil {
					problems = append(problems, "native replay produced no result for "+p.rep.ID)
				}
				continue
			}
			switch p.rep.Kind {
			case "witness":
				if o.Status != "ok" {
					mismatches = append(mismatches, fmt.Sprintf("witness %s: native status %s %s %s (engine predicted a clean run)", p.rep.ID, o.Status, o.Name, o.Msg))
					continue
				}
				if d := diffObs(p.rep.Observes, o.Observes); d != "" {
					mismatches = append(mismatches, fmt.Sprintf("witness %s: %s", p.rep.ID, d))
					continue
				}
				validated++
			default:
				repro := false
				switch p.rep.Kind {
				case "unwind":
					repro = o.Status == "hang"
				case "assert":
					// the engine models slice capacities after growth loosely, so an
					// input it reports for an assertion may natively fail earlier with
					// a run-time panic inside the library: still a failure of the real
					// code on an input of the property's domain
					repro = (o.Status == "assert" && o.Name == p.rep.Site) || o.Status == "hang" || (o.Status == "panic" && libraryPanic(o.Stack))
				case "panic":
					repro = o.Status == "panic" || o.Status == "hang"
				case "alloc", "footprint":
					// decided by the engine's monitor; native run only has to be a valid execution
					repro = o.Status != "assume"
				}
				if !repro {
					mismatches = append(mismatches, fmt.Sprintf("counterexample %s (%s %s) did not reproduce natively: status=%s name=%s msg=%s", p.rep.ID, p.rep.Kind, p.rep.Site, o.Status, o.Name, o.Msg))
					continue
				}
				validated++
				if p.rep.Known != "" {
					knownConfirmed[p.rep.Known] = p.rep.Site
				} else {
					b, _ := json.MarshalIndent(p.rep, "", " ")
					os.WriteFile(p.path, b, 0o644)
					confirmed = append(confirmed, p)
				}
			}
		}
	} else if *noNative {
		for _, p := range pend {
			if p.rep.Kind != "witness" && p.rep.Known == "" {
				b, _ := json.MarshalIndent(p.rep, "", " ")
				os.WriteFile(p.path, b, 0o644)
				confirmed = append(confirmed, p)
			} else if p.rep.Known != "" {
				knownConfirmed[p.rep.Known] = p.rep.Site
			}
		}
	}
	nViol = len(confirmed)
	nKnown = len(knownConfirmed)

	// vacuity: every required reach point must have been reached in some case
	var vacuous []string
	for _, need := range ps.RequireReach {
		if !reachedAll[need] {
			vacuous = append(vacuous, need)
		}
	}
	if *only != "" {
		vacuous = nil
	}

	// ------------------------------------------------------------ report
	kids := make([]string, 0, len(knownConfirmed))
	for k := range knownConfirmed {
		kids = append(kids, k)
	}
	sort.Strings(kids)
	for _, k := range kids {
		what := k
		for _, kf := range knownList {
			if kf.ID == k {
				what = kf.What
			}
		}
		fmt.Printf("KNOWN-FINDING: property=%s %s: %s\n", *prop, k, what)
	}
	shown := map[string]bool{}
	for _, p := range confirmed {
		key := p.rep.Kind + "|" + p.rep.Site
		if !shown[key] {
			fmt.Printf("violation: %s %s harness=%s args=%v\n", p.rep.Kind, p.rep.Site, p.rep.Harness, p.rep.Args)
			shown[key] = true
		}
		fmt.Printf("VIOLATION property=%s replay=%s\n", *prop, p.path)
	}
	for _, m := range mismatches {
		fmt.Println("ENGINE-MISMATCH:", m)
	}
	sort.Strings(problems)
	for i, p := range problems {
		if i < 40 {
			fmt.Println("INCONCLUSIVE:", p)
		}
	}
	for _, v := range vacuous {
		fmt.Println("VACUOUS: never reached", v)
	}

	fl := keys(funcs)
	sl := keys(stubs)
	var rl []string
	for k := range reachedAll {
		rl = append(rl, k)
	}
	sort.Strings(rl)
	wall := time.Since(t0).Seconds()
	ev := map[string]interface{}{
		"property_id": *prop,
		"tier":        *tier,
		"seed":        seed,
		"level":       "model_checking",
		"wall_s":      wall,
		"violations":  nViol,
		"coverage": map[string]interface{}{
			"states":                        totStates,
			"transitions":                   totInstr,
			"traces_validated_against_impl": validated,
			"samples":                       samples,
			"cases":                         len(cases),
			"bounds":                        bounds,
			"functions_encoded":             fl,
			"queries": map[string]interface{}{
				"solver_queries": totQ, "vcs": totVC, "vcs_unsat": totUnsat, "vcs_folded_constant": totConst, "vcs_subsumed_by_proved": totSubsumed,
				"violations_confirmed": nViol, "known_findings_seen": kids, "undecided": nUndec, "unsupported_cases": nUnsup, "cases_cancelled_after_violation": nCancelled,
			},
			"solver":               defSolver,
			"solver_time_s":        totSolver,
			"load_time_s":          tLoad,
			"state_merges":         totMerges,
			"max_loop_unwinding":   maxUnwind,
			"reached_points":       rl,
			"stubs":                sl,
			"outside_claim":        ps.Outside,
			"engine_mismatches":    mismatches,
			"inconclusive":         problems,
			"exhaustive":           false,
			"rule":                 "one case = one symbolic execution of a harness for a concrete shape; all nondet inputs are SMT variables; every VC is decided by the solver",
		},
		"assumptions": append([]string{
			"gosym interprets go/ssa of /repo's current tree; its semantics are cross-checked on every run by replaying solver models natively and comparing observed values",
			"int/uint/uintptr are 64 bits (gc/amd64); append growth over-allocates to a constant capacity (Go only promises cap >= len)",
			"SMT solver answers (z3 4.8.12 by default) are trusted; any (error, unknown or timeout makes the run inconclusive, never a pass",
		}, ps.Assumptions...),
	}
	b, _ := json.MarshalIndent(ev, "", " ")
	os.WriteFile(filepath.Join(*outDir, *prop+".json"), b, 0o644)

	fmt.Printf("%s %s: cases=%d vcs=%d unsat=%d folded=%d violations=%d known=%d undecided=%d unsupported=%d validated=%d queries=%d solver=%.1fs wall=%.1fs\n",
		*prop, *tier, len(cases), totVC, totUnsat, totConst, nViol, nKnown, nUndec, nUnsup, validated, totQ, totSolver, wall)
	switch {
	case nViol > 0:
		os.Exit(1)
	case len(mismatches) > 0 || nUndec > 0 || nUnsup > 0 || len(vacuous) > 0 || len(problems) > 0:
		os.Exit(2)
	}
}

func diffObs(pred, nat []ObsVal) string {
	if len(pred) != len(nat) {
		return fmt.Sprintf("observation count differs: engine %d native %d", len(pred), len(nat))
	}
	for i := range pred {
		if pred[i].Name != nat[i].Name {
			return fmt.Sprintf("observation %d name differs: %s vs %s", i, pred[i].Name, nat[i].Name)
		}
		if len(pred[i].Vals) != len(nat[i].Vals) {
			return fmt.Sprintf("observation %s length differs: %v vs %v", pred[i].Name, pred[i].Vals, nat[i].Vals)
		}
		for j := range pred[i].Vals {
			if pred[i].Vals[j] != nat[i].Vals[j] {
				return fmt.Sprintf("observation %s differs at %d: engine %v native %v", pred[i].Name, j, pred[i].Vals, nat[i].Vals)
			}
		}
	}
	return ""
}

func keys(m map[string]bool) []string {
	var out []string
	for k := range m {
		out = append(out, k)
	}
	sort.Strings(out)
	return out
}

func argStr(a []int) string {
	s := make([]string, len(a))
	for i, v := range a {
		s[i] = fmt.Sprint(v)
	}
	return strings.Join(s, "_")
}

func firstLine(s string) string {
	if i := strings.Index(s, "\n"); i >= 0 {
		return s[:i]
	}
	return s
}

func tail(s string, n int) string {
	l := strings.Split(s, "\n")
	if len(l) > n {
		l = l[len(l)-n:]
	}
	return strings.Join(l, "\n")
}
