package main

// Heap objects, loads/stores through guarded pointers, slices and strings.

import (
	"fmt"
	"go/types"
)

type Object struct {
	typ    types.Type
	v      Value
	frozen bool
	global bool
	name   string
	ro     bool // immutable (string storage)
	allow  [][]PathEl
}

type State struct {
	pc         []*Term
	facts      map[int]int8
	eqc        map[int]*Term
	factsShare bool
	heap       map[int]*Object
	heapShare  bool
	regs       map[interface{}]Value
	regsShare  bool
	alloc      *Term
	ret        Value
	dead       bool
}

func (st *State) clone() *State {
	st.factsShare, st.heapShare, st.regsShare = true, true, true
	n := *st
	n.pc = st.pc[:len(st.pc):len(st.pc)]
	return &n
}

func (st *State) ownHeap() {
	if st.heapShare {
		m := make(map[int]*Object, len(st.heap)+8)
		for k, v := range st.heap {
			m[k] = v
		}
		st.heap = m
		st.heapShare = false
	}
}

func (st *State) ownRegs() {
	if st.regsShare {
		m := make(map[interface{}]Value, len(st.regs)+8)
		for k, v := range st.regs {
			m[k] = v
		}
		st.regs = m
		st.regsShare = false
	}
}

func (st *State) ownFacts() {
	if st.factsShare {
		m := make(map[int]int8, len(st.facts)+8)
		for k, v := range st.facts {
			m[k] = v
		}
		st.facts = m
		e := make(map[int]*Term, len(st.eqc)+8)
		for k, v := range st.eqc {
			e[k] = v
		}
		st.eqc = e
		st.factsShare = false
	}
}

func (st *State) setReg(k interface{}, v Value) {
	st.ownRegs()
	st.regs[k] = v
}

func (ex *Exec) addFact(st *State, c *Term) {
	switch {
	case c.op == OpAnd:
		for _, a := range c.args {
			ex.addFact(st, a)
		}
	case c.op == OpNot:
		st.facts[c.args[0].id] = -1
		// not(a or b) => not a, not b
		if c.args[0].op == OpOr {
			for _, a := range c.args[0].args {
				ex.addFact(st, ex.tb.Not(a))
			}
		}
	default:
		st.facts[c.id] = 1
		if c.op == OpEq {
			if c.args[1].IsConst() {
				st.eqc[c.args[0].id] = c.args[1]
			} else if c.args[0].IsConst() {
				st.eqc[c.args[1].id] = c.args[0]
			}
		}
	}
}

// assume adds c to the path condition. Returns false if the path is dead.
func (ex *Exec) assume(st *State, c *Term) bool {
	c = ex.simp(st, c)
	if c.IsTrue() {
		return true
	}
	if c.IsFalse() {
		st.dead = true
		return false
	}
	st.pc = append(st.pc, c)
	st.ownFacts()
	ex.addFact(st, c)
	return true
}

// simp evaluates a boolean term against syntactic facts of the path. The
// traversal is memoised and depth-limited so that large shared guard DAGs
// cost linear time.
func (ex *Exec) simp(st *State, c *Term) *Term {
	if c.IsConst() {
		return c
	}
	if len(st.facts) == 0 {
		return c
	}
	return ex.simpD(st, c, 5, map[int]*Term{})
}

func (ex *Exec) simpD(st *State, c *Term, depth int, memo map[int]*Term) *Term {
	if c.IsConst() {
		return c
	}
	if f, ok := st.facts[c.id]; ok {
		return ex.tb.Bool(f == 1)
	}
	if depth == 0 {
		return c
	}
	if r, ok := memo[c.id]; ok {
		return r
	}
	r := c
	switch c.op {
	case OpNot:
		in := ex.simpD(st, c.args[0], depth-1, memo)
		if in != c.args[0] {
			r = ex.tb.Not(in)
		}
	case OpEq:
		a, b := c.args[0], c.args[1]
		if b.IsConst() {
			if k, ok := st.eqc[a.id]; ok && k != b {
				r = ex.tb.False
			}
		} else if a.IsConst() {
			if k, ok := st.eqc[b.id]; ok && k != a {
				r = ex.tb.False
			}
		}
	case OpAnd, OpOr:
		changed := false
		out := make([]*Term, len(c.args))
		for i, a := range c.args {
			out[i] = ex.simpD(st, a, depth-1, memo)
			if out[i] != a {
				changed = true
			}
		}
		if changed {
			if c.op == OpAnd {
				r = ex.tb.And(out...)
			} else {
				r = ex.tb.Or(out...)
			}
		}
	}
	memo[c.id] = r
	return r
}

func (ex *Exec) pcTerm(st *State) *Term { return ex.tb.And(st.pc...) }

func (ex *Exec) rebuildFacts(st *State) {
	st.facts = map[int]int8{}
	st.eqc = map[int]*Term{}
	st.factsShare = false
	for _, c := range st.pc {
		ex.addFact(st, c)
	}
}

// ---------------------------------------------------------------- objects

func (ex *Exec) newObj(st *State, t types.Type, v Value, name string) int {
	ex.nextObj++
	id := ex.nextObj
	st.ownHeap()
	st.heap[id] = &Object{typ: t, v: v, name: name}
	return id
}

func (ex *Exec) obj(st *State, id int) *Object {
	o := st.heap[id]
	if o == nil {
		unsup("dangling object %d", id)
	}
	return o
}

func (ex *Exec) idxEq(i *Term, k int) *Term { return ex.tb.Eq(i, ex.tb.BV(uint64(k), 64)) }

// loadPath reads the sub-value of v at path.
func (ex *Exec) loadPath(v Value, path []PathEl) Value {
	if len(path) == 0 {
		return v
	}
	el := path[0]
	if el.idx == nil {
		s, ok := v.(*StructV)
		if !ok {
			unsup("field path into %T", v)
		}
		return ex.loadPath(s.f[el.fld], path[1:])
	}
	a, ok := v.(*ArrayV)
	if !ok {
		unsup("index path into %T", v)
	}
	n := len(a.e)
	if n == 0 {
		return nil
	}
	rest := path[1:]
	if el.idx.IsConst() {
		k := int(el.idx.val)
		if el.idx.val >= uint64(n) {
			// out of range under an infeasible guard; return element 0
			k = 0
		}
		return ex.loadPath(ex.cell(a, k), rest)
	}
	if ex.tb.isCTree(el.idx) {
		var res Value
		ex.forLeaves(el.idx, ex.tb.True, func(g *Term, k uint64) {
			kk := int(k)
			if k >= uint64(n) {
				return
			}
			x := ex.loadPath(ex.cell(a, kk), rest)
			if res == nil {
				res = x
			} else {
				res = ex.merge(g, x, res)
			}
		})
		if res == nil {
			res = ex.loadPath(ex.cell(a, 0), rest)
		}
		return res
	}
	lo, hi := 0, n-1
	if b, ok := ex.tb.boundsOf(el.idx); ok {
		if b.hi < uint64(hi) {
			hi = int(b.hi)
		}
		if b.lo > uint64(lo) && b.lo <= uint64(hi) {
			lo = int(b.lo)
		}
	}
	res := ex.loadPath(ex.cell(a, hi), rest)
	for k := hi - 1; k >= lo; k-- {
		res = ex.merge(ex.idxEq(el.idx, k), ex.loadPath(ex.cell(a, k), rest), res)
	}
	return res
}

// cell returns element k of a with the store log folded in.
func (ex *Exec) cell(a *ArrayV, k int) Value {
	v := a.e[k]
	junk := a.acc && k >= a.accBase && len(a.log) > 0
	if junk {
		v = nil // the first applicable append supplies the value
	}
	defer func() {}()
	for _, ev := range a.log {
		if ev.idx.IsConst() {
			if ev.idx.val != uint64(k) {
				continue
			}
			if v == nil {
				v = a.e[k]
			}
			v = ex.storePath(v, ev.rest, ev.val, ev.g)
			continue
		}
		if b, ok := ex.tb.boundsOf(ev.idx); ok && (uint64(k) < b.lo || uint64(k) > b.hi) {
			continue
		}
		c := ex.tb.And(ev.g, ex.idxEq(ev.idx, k))
		if c.IsFalse() {
			continue
		}
		if v == nil && len(ev.rest) == 0 {
			v = ev.val
			continue
		}
		if v == nil {
			v = a.e[k]
		}
		v = ex.storePath(v, ev.rest, ev.val, c)
	}
	if v == nil {
		v = a.e[k]
	}
	if debugVC {
		if pv, ok := v.(*PtrV); ok {
			for _, al := range pv.alts {
				if al.obj == 0 {
					fmt.Printf("CELLNIL k=%d acc=%v base=%d log=%d alts=%d junk=%v\n", k, a.acc, a.accBase, len(a.log), len(pv.alts), junk)
					break
				}
			}
		}
	}
	return v
}

// flatten materialises the store log.
func (ex *Exec) flatten(a *ArrayV) *ArrayV {
	if len(a.log) == 0 {
		return a
	}
	e := make([]Value, len(a.e))
	for k := range e {
		e[k] = ex.cell(a, k)
	}
	return &ArrayV{e: e}
}

// forLeaves enumerates the constant leaves of a constant tree with their guards.
func (ex *Exec) forLeaves(t *Term, g *Term, f func(g *Term, k uint64)) {
	if t.op == OpConst {
		f(g, t.val)
		return
	}
	ex.forLeaves(t.args[1], ex.tb.And(g, t.args[0]), f)
	ex.forLeaves(t.args[2], ex.tb.And(g, ex.tb.Not(t.args[0])), f)
}

// storePath writes nv at path inside v under guard g.
func (ex *Exec) storePath(v Value, path []PathEl, nv Value, g *Term) Value {
	if len(path) == 0 {
		return ex.merge(g, nv, v)
	}
	el := path[0]
	if el.idx == nil {
		s, ok := v.(*StructV)
		if !ok {
			unsup("field path into %T", v)
		}
		f := make([]Value, len(s.f))
		copy(f, s.f)
		f[el.fld] = ex.storePath(s.f[el.fld], path[1:], nv, g)
		return &StructV{f: f}
	}
	a, ok := v.(*ArrayV)
	if !ok {
		unsup("index path into %T", v)
	}
	n := len(a.e)
	if len(a.log) == 0 && (el.idx.IsConst() || (ex.tb.isCTree(el.idx) && el.idx.nleaf <= 4)) {
		e := make([]Value, n)
		copy(e, a.e)
		if el.idx.IsConst() {
			if el.idx.val < uint64(n) {
				k := int(el.idx.val)
				e[k] = ex.storePath(a.e[k], path[1:], nv, g)
			}
			return &ArrayV{e: e}
		}
		ex.forLeaves(el.idx, g, func(gg *Term, k uint64) {
			if k < uint64(n) {
				e[k] = ex.storePath(e[k], path[1:], nv, gg)
			}
		})
		return &ArrayV{e: e}
	}
	if len(a.log) >= 256 {
		a = ex.flatten(a)
	}
	// symbolic index (or a store on top of logged stores): append to the log
	log := append(a.log[:len(a.log):len(a.log)], wevent{g: g, idx: el.idx, rest: path[1:], val: nv})
	return &ArrayV{e: a.e, log: log, acc: a.acc, accBase: a.accBase}
}

// load dereferences p. Nil alternatives raise a VC.
func (ex *Exec) load(st *State, p *PtrV, site string) Value {
	var res Value
	hasNil := false
	for _, a := range p.alts {
		if a.obj == 0 {
			hasNil = true
		}
	}
	if hasNil {
		if debugVC {
			fmt.Printf("LOADNIL %s: alts=%d\n", site, len(p.alts))
			for i, a := range p.alts {
				if i < 12 || a.obj == 0 {
					fmt.Printf("   alt %d obj=%d gconst=%v\n", i, a.obj, a.g.IsConst())
				}
			}
		}
		var nilG []*Term
		for _, a := range ex.eff(p) {
			if a.obj == 0 {
				nilG = append(nilG, a.g)
			}
		}
		ex.vc(st, "panic", site+": nil dereference", ex.tb.Or(nilG...))
		if st.dead {
			return nil
		}
	}
	// priority semantics: build the nested ite from the last alternative up
	for i := len(p.alts) - 1; i >= 0; i-- {
		a := p.alts[i]
		if a.obj == 0 {
			continue
		}
		x := ex.loadPath(ex.obj(st, a.obj).v, a.path)
		if res == nil {
			res = x
		} else {
			res = ex.merge(a.g, x, res)
		}
	}
	return res
}

func (ex *Exec) store(st *State, p *PtrV, v Value, site string) {
	var nilG []*Term
	for _, a := range ex.eff(p) {
		if a.obj == 0 {
			nilG = append(nilG, a.g)
		}
	}
	if len(nilG) > 0 {
		ex.vc(st, "panic", site+": nil dereference", ex.tb.Or(nilG...))
		if st.dead {
			return
		}
	}
	for _, a := range ex.eff(p) {
		if a.obj == 0 {
			continue
		}
		ex.storeObj(st, a.obj, a.path, v, a.g, site)
	}
}

func pathAllowed(allow [][]PathEl, path []PathEl) bool {
	for _, pre := range allow {
		if len(path) >= len(pre) && samePath(pre, path[:len(pre)]) {
			return true
		}
	}
	return false
}

func (ex *Exec) storeObj(st *State, id int, path []PathEl, v Value, g *Term, site string) {
	o := ex.obj(st, id)
	if ex.footprint && (o.frozen || o.global) && !pathAllowed(o.allow, path) {
		what := "store into frozen object " + o.name
		if o.global {
			what = "store into package-level variable " + o.name
		}
		ex.vc(st, "footprint", site+": "+what, g)
		if st.dead {
			return
		}
	}
	if o.global {
		ex.globalStores++
	}
	nv := ex.storePath(o.v, path, v, g)
	st.ownHeap()
	n := *o
	n.v = nv
	st.heap[id] = &n
}

// ---------------------------------------------------------------- slices

func (ex *Exec) i64(k int) *Term { return ex.tb.BV(uint64(int64(k)), 64) }

// sliceElemPtr returns the pointer to s[i] (i is a 64-bit term).
func (ex *Exec) sliceElemPtr(s *SliceV, i *Term) *PtrV {
	p := &PtrV{}
	for _, a := range s.alts {
		if a.obj == 0 {
			// index into nil slice is always out of bounds; bounds VC covers it
			continue
		}
		p.alts = append(p.alts, PAlt{g: a.g, obj: a.obj, path: []PathEl{{idx: ex.tb.Add(a.off, i)}}})
	}
	if len(p.alts) == 0 {
		p.alts = []PAlt{{g: ex.tb.True}}
	}
	return p
}

// sliceLoad reads s[i] without bounds VC.
func (ex *Exec) sliceLoad(st *State, s *SliceV, i *Term) Value {
	var res Value
	for k := len(s.alts) - 1; k >= 0; k-- {
		a := s.alts[k]
		if a.obj == 0 {
			continue
		}
		x := ex.loadPath(ex.obj(st, a.obj).v, []PathEl{{idx: ex.tb.Add(a.off, i)}})
		if res == nil {
			res = x
		} else {
			res = ex.merge(a.g, x, res)
		}
	}
	return res
}

func (ex *Exec) sliceStore(st *State, s *SliceV, i *Term, v Value, g *Term, site string) {
	for _, a := range s.alts {
		if a.obj == 0 {
			continue
		}
		ex.storeObj(st, a.obj, []PathEl{{idx: ex.tb.Add(a.off, i)}}, v, ex.tb.And(g, a.g), site)
	}
}

// umaxLen returns a concrete upper bound for a length term, consulting the
// solver when the syntactic bound exceeds the allocation bound.
func (ex *Exec) umaxLen(st *State, n *Term, site string) int {
	if n.IsConst() {
		v := sext(n.val, 64)
		if v < 0 {
			return 0
		}
		return int(v)
	}
	b, ok := ex.tb.boundsOf(n)
	lo, hi := 0, ex.Kalloc
	if ok && b.hi <= uint64(ex.Kalloc) {
		lo, hi = int(b.lo), int(b.hi)
	} else {
		// ask the solver whether n can exceed Kalloc
		bad := ex.tb.Slt(ex.i64(ex.Kalloc), n)
		ex.vc(st, "alloc", site+": length exceeds allocation bound", bad)
		if st.dead {
			return 0
		}
	}
	if hi > 8 && ex.feasBranches {
		return ex.tightMax(st, n, lo, hi)
	}
	return hi
}

// tightMax refines a syntactic upper bound of a length with the solver: the
// smallest m such that n > m is infeasible on the current path (binary search;
// an undecided query keeps the larger bound, so the result is always sound).
func (ex *Exec) tightMax(st *State, n *Term, lo, hi int) int {
	pc := ex.pcTerm(st)
	key := [2]int{pc.id, n.id}
	if v, ok := ex.tightCache[key]; ok {
		return v
	}
	l, h := lo, hi // invariant: n <= h always holds
	for l < h {
		m := (l + h) / 2
		if ex.solver.CheckQuick(ex.feasMs, pc, ex.tb.Slt(ex.i64(m), n)) == "unsat" {
			h = m
		} else {
			l = m + 1
		}
	}
	ex.tightCache[key] = h
	return h
}

// newArrayObj allocates a backing array of cnt elements.
func (ex *Exec) newArrayObj(st *State, elem types.Type, elems []Value, ro bool) int {
	id := ex.newObj(st, types.NewArray(elem, int64(len(elems))), &ArrayV{e: elems}, "")
	if ro {
		st.heap[id].ro = true
	}
	return id
}

func (ex *Exec) addAlloc(st *State, bytes *Term) {
	st.alloc = ex.tb.Add(st.alloc, bytes)
}

func (ex *Exec) sizeof(t types.Type) int64 {
	defer func() { recover() }()
	return ex.sizes.Sizeof(t)
}

// makeSlice implements make([]T, n, c).
func (ex *Exec) makeSlice(st *State, elem types.Type, n, c *Term, site string) *SliceV {
	ex.vc(st, "panic", site+": makeslice: len out of range", ex.tb.Or(ex.tb.Slt(n, ex.i64(0)), ex.tb.Slt(c, n)))
	if st.dead {
		return ex.nilSlice(false)
	}
	cnt := ex.umaxLen(st, c, site)
	z := ex.zero(elem)
	elems := make([]Value, cnt)
	for i := range elems {
		elems[i] = z
	}
	id := ex.newArrayObj(st, elem, elems, false)
	ex.addAlloc(st, ex.tb.Mul(c, ex.i64(int(ex.sizeof(elem)))))
	return &SliceV{alts: []SAlt{{g: ex.tb.True, obj: id, off: ex.i64(0)}}, ln: n, cp: c}
}

// bytesOfString / fresh copies ------------------------------------------------

// copyOut reads elements [0,len) of s into a fresh list of cnt values, where
// cnt bounds len; entries beyond len are the zero value.
func (ex *Exec) copyOut(st *State, s *SliceV, cnt int, zero Value) []Value {
	out := make([]Value, cnt)
	for i := 0; i < cnt; i++ {
		in := ex.tb.Slt(ex.i64(i), s.ln)
		if in.IsFalse() {
			out[i] = zero
			continue
		}
		v := ex.sliceLoad(st, s, ex.i64(i))
		if v == nil {
			out[i] = zero
			continue
		}
		out[i] = ex.merge(in, v, zero)
	}
	return out
}

func (ex *Exec) strConst(st *State, s string) *SliceV {
	if s == "" {
		return &SliceV{alts: []SAlt{{g: ex.tb.True, obj: 0, off: ex.i64(0)}}, ln: ex.i64(0), str: true}
	}
	elems := make([]Value, len(s))
	for i := 0; i < len(s); i++ {
		elems[i] = ex.tb.BV(uint64(s[i]), 8)
	}
	id := ex.newArrayObj(st, types.Typ[types.Uint8], elems, true)
	return &SliceV{alts: []SAlt{{g: ex.tb.True, obj: id, off: ex.i64(0)}}, ln: ex.i64(len(s)), str: true}
}

func (ex *Exec) opaqueStr(st *State) *SliceV {
	n := ex.tb.Fresh("slen", BVSort(64))
	// non-negative, bounded length
	ex.restrictions++
	ex.assume(st, ex.tb.And(ex.tb.Sle(ex.i64(0), n), ex.tb.Sle(n, ex.i64(1<<20))))
	return &SliceV{str: true, opaque: true, ln: n}
}

// convBytesString converts between []byte and string by copying.
func (ex *Exec) convBytesString(st *State, s *SliceV, toStr bool, site string) *SliceV {
	if s.opaque {
		if toStr {
			return s
		}
		unsup("[]byte of opaque string")
	}
	cnt := ex.umaxLen(st, s.ln, site)
	if cnt == 0 {
		if toStr {
			return &SliceV{alts: []SAlt{{g: ex.tb.True, obj: 0, off: ex.i64(0)}}, ln: ex.i64(0), str: true}
		}
		// []byte("") is a non-nil empty slice in general; model as empty with a fresh base
		id := ex.newArrayObj(st, types.Typ[types.Uint8], nil, false)
		return &SliceV{alts: []SAlt{{g: ex.tb.True, obj: id, off: ex.i64(0)}}, ln: ex.i64(0), cp: ex.i64(0)}
	}
	elems := ex.copyOut(st, s, cnt, ex.tb.BV(0, 8))
	id := ex.newArrayObj(st, types.Typ[types.Uint8], elems, toStr)
	ex.addAlloc(st, s.ln)
	r := &SliceV{alts: []SAlt{{g: ex.tb.True, obj: id, off: ex.i64(0)}}, ln: s.ln, str: toStr}
	if !toStr {
		r.cp = s.ln
	}
	return r
}

// strEq compares two strings.
func (ex *Exec) strEq(st *State, a, b *SliceV) *Term {
	tb := ex.tb
	if a.opaque || b.opaque {
		if a == b {
			return tb.True
		}
		// unknown content: fresh boolean constrained by length equality
		r := tb.Fresh("streq", BoolSort)
		ex.restrictions++
		ex.assume(st, tb.Implies(r, tb.Eq(a.ln, b.ln)))
		return r
	}
	lenEq := tb.Eq(a.ln, b.ln)
	if lenEq.IsFalse() {
		return lenEq
	}
	na, oka := ex.tb.boundsOf(a.ln)
	nb, okb := ex.tb.boundsOf(b.ln)
	n := uint64(ex.Kalloc)
	if oka && na.hi < n {
		n = na.hi
	}
	if okb && nb.hi < n {
		n = nb.hi
	}
	conj := []*Term{lenEq}
	for i := 0; i < int(n); i++ {
		in := tb.Slt(ex.i64(i), a.ln)
		if in.IsFalse() {
			break
		}
		x := ex.sliceLoad(st, a, ex.i64(i))
		y := ex.sliceLoad(st, b, ex.i64(i))
		if x == nil || y == nil {
			continue
		}
		conj = append(conj, tb.Implies(in, tb.Eq(x.(*Term), y.(*Term))))
	}
	return tb.And(conj...)
}

// sliceOp implements s[lo:hi:max] for slices and strings.
func (ex *Exec) sliceOp(st *State, s *SliceV, lo, hi, max *Term, site string) *SliceV {
	tb := ex.tb
	if s.opaque {
		unsup("slicing an opaque string")
	}
	zero := ex.i64(0)
	if lo == nil {
		lo = zero
	}
	if hi == nil {
		hi = s.ln
	}
	limit := s.cp
	if s.str {
		limit = s.ln
	}
	var bad *Term
	if max != nil {
		bad = tb.Or(tb.Slt(lo, zero), tb.Slt(hi, lo), tb.Slt(max, hi), tb.Slt(limit, max))
	} else {
		bad = tb.Or(tb.Slt(lo, zero), tb.Slt(hi, lo), tb.Slt(limit, hi))
	}
	ex.vc(st, "panic", site+": slice bounds out of range", bad)
	r := &SliceV{str: s.str, ln: tb.Sub(hi, lo)}
	if !s.str {
		if max != nil {
			r.cp = tb.Sub(max, lo)
		} else {
			r.cp = tb.Sub(s.cp, lo)
		}
	}
	for _, a := range s.alts {
		na := SAlt{g: a.g, obj: a.obj, off: tb.Add(a.off, lo)}
		if a.cp != nil && !s.str {
			if max != nil {
				na.cp = tb.Sub(max, lo)
			} else {
				na.cp = tb.Sub(a.cp, lo)
			}
		}
		r.alts = append(r.alts, na)
	}
	return r
}

// appendOp implements append(s, t...).
func (ex *Exec) appendOp(st *State, s, t *SliceV, elem types.Type, site string) *SliceV {
	tb := ex.tb
	if t.opaque {
		unsup("append of opaque string")
	}
	if t.ln.IsConst() && t.ln.val == 0 {
		return s
	}
	n, k := s.ln, t.ln
	newLen := tb.Add(n, k)
	kmax := ex.umaxLen(st, k, site)
	zero := ex.zero(elem)
	// read the appended elements first
	add := make([]Value, kmax)
	for i := 0; i < kmax; i++ {
		add[i] = ex.sliceLoad(st, t, ex.i64(i))
		if add[i] == nil {
			add[i] = zero
		}
	}
	bn, okn := tb.boundsOf(newLen)
	res := &SliceV{ln: newLen}
	var grow []SAlt
	pcT := (*Term)(nil)
	for _, a := range s.alts {
		capA := s.altCap(a)
		inplace := ex.simp(st, tb.Sle(newLen, capA))
		if capA == s.ln && len(s.alts) == 1 {
			inplace = tb.False
		}
		if !inplace.IsConst() {
			bc, okc := tb.boundsOf(capA)
			if okn && okc && bn.hi <= bc.lo {
				inplace = tb.True
			} else if okn && okc && bn.lo > bc.hi {
				inplace = tb.False
			} else if ex.feasBranches {
				if pcT == nil {
					pcT = ex.pcTerm(st)
				}
				if ex.solver.CheckQuick(ex.feasMs, pcT, a.g, tb.Not(inplace)) == "unsat" {
					inplace = tb.True
				} else if ex.solver.CheckQuick(ex.feasMs, pcT, a.g, inplace) == "unsat" {
					inplace = tb.False
				}
			}
		}
		if debugVC {
			fmt.Printf("APPEND %s: alt obj=%d inplace const=%v true=%v bn=%v\n", site, a.obj, inplace.IsConst(), inplace.IsTrue(), bn)
		}
		if a.obj == 0 {
			inplace = tb.False
		}
		if !inplace.IsFalse() {
			ga := tb.And(a.g, inplace)
			for i := 0; i < kmax; i++ {
				g := tb.And(ga, tb.Slt(ex.i64(i), k))
				if g.IsFalse() {
					continue
				}
				ex.storeObj(st, a.obj, []PathEl{{idx: tb.Add(a.off, tb.Add(n, ex.i64(i)))}}, add[i], g, site)
			}
			res.alts = append(res.alts, SAlt{g: ga, obj: a.obj, off: a.off, cp: capA})
		}
		if !inplace.IsTrue() {
			grow = append(grow, SAlt{g: tb.And(a.g, tb.Not(inplace)), obj: a.obj, off: a.off})
		}
	}
	if len(grow) == 0 {
		res.cp = ex.sliceCap(res)
		return res
	}
	// growth: one fresh backing array for all alternatives that do not fit.
	// Go leaves the capacity after growth to the implementation (>= new
	// length); the model over-allocates to a constant so that the following
	// appends of an accumulator are in place and decided by ranges.
	var gs []*Term
	allNil := true
	for _, a := range grow {
		gs = append(gs, a.g)
		if a.obj != 0 {
			allNil = false
		}
	}
	growG := tb.Or(gs...)
	if allNil {
		// a nil slice has length 0 whatever the merged length term says
		n = ex.i64(0)
	}
	cnt := ex.umaxLen(st, tb.Add(n, k), site)
	// Growing from nil while another alternative of the same slice already
	// owns an accumulator array with room: the two alternatives are mutually
	// exclusive, every store is guarded by its alternative's condition, and a
	// fresh array has no aliases, so the nil alternative may share that
	// array's storage instead of getting an object of its own.
	if allNil {
		for ri := range res.alts {
			x := res.alts[ri]
			if x.obj == 0 || x.cp == nil || !x.cp.IsConst() || !x.off.IsConst() || x.off.val != 0 {
				continue
			}
			av, ok := ex.obj(st, x.obj).v.(*ArrayV)
			if !ok || !av.acc || int(x.cp.val) < cnt || int(x.cp.val) > len(av.e) {
				continue
			}
			for i := 0; i < kmax; i++ {
				g := tb.And(growG, tb.Slt(ex.i64(i), k))
				if g.IsFalse() {
					continue
				}
				ex.storeObj(st, x.obj, []PathEl{{idx: tb.Add(n, ex.i64(i))}}, add[i], g, site)
			}
			ex.addAlloc(st, tb.Ite(growG, tb.Mul(k, ex.i64(2*int(ex.sizeof(elem)))), ex.i64(0)))
			res.alts[ri].g = tb.Or(x.g, growG)
			res.cp = ex.sliceCap(res)
			return res
		}
	}
	capNew := 2 * cnt
	if capNew < ex.Kgrow {
		capNew = ex.Kgrow
	}
	if capNew > ex.Kalloc && cnt <= ex.Kalloc {
		capNew = ex.Kalloc
	}
	src := &SliceV{alts: grow, ln: n}
	elems := make([]Value, capNew)
	nmax := ex.umaxLen(st, n, site)
	for j := 0; j < capNew; j++ {
		var v Value = zero
		if j < cnt {
			if n.IsConst() {
				i := j - int(n.val)
				if i >= 0 && i < kmax {
					v = ex.merge(tb.Slt(ex.i64(i), k), add[i], zero)
				}
			} else {
				for i := 0; i < kmax && i <= j; i++ {
					if j-i > nmax {
						continue
					}
					g := tb.And(tb.Eq(n, ex.i64(j-i)), tb.Slt(ex.i64(i), k))
					v = ex.merge(g, add[i], v)
				}
			}
			if j < nmax {
				in := tb.Slt(ex.i64(j), n)
				if !in.IsFalse() {
					old := ex.sliceLoad(st, src, ex.i64(j))
					if old != nil {
						v = ex.merge(in, old, v)
					}
				}
			}
		}
		elems[j] = v
	}
	id := ex.newArrayObj(st, elem, elems, false)
	st.heap[id].v = &ArrayV{e: elems, acc: true, accBase: cnt}
	// the allocation counter charges twice the new length (amortised doubling
	// of the real runtime), not the model's constant slack
	capT := ex.i64(capNew)
	ex.addAlloc(st, tb.Ite(growG, tb.Mul(newLen, ex.i64(2*int(ex.sizeof(elem)))), ex.i64(0)))
	res.alts = append(res.alts, SAlt{g: growG, obj: id, off: ex.i64(0), cp: capT})
	res.cp = ex.sliceCap(res)
	return res
}

// sliceCap computes the capacity term of a slice from its alternatives.
func (ex *Exec) sliceCap(s *SliceV) *Term {
	var r *Term
	for i := len(s.alts) - 1; i >= 0; i-- {
		c := s.alts[i].cp
		if c == nil {
			c = ex.i64(0)
		}
		if r == nil {
			r = c
		} else {
			r = ex.tb.Ite(s.alts[i].g, c, r)
		}
	}
	if r == nil {
		r = ex.i64(0)
	}
	return r
}

// copyOp implements copy(dst, src) and returns the number of elements copied.
func (ex *Exec) copyOp(st *State, dst, src *SliceV, site string) *Term {
	tb := ex.tb
	if src.opaque {
		unsup("copy from opaque string")
	}
	n := tb.Ite(tb.Slt(dst.ln, src.ln), dst.ln, src.ln)
	cnt := ex.umaxLen(st, n, site)
	vals := make([]Value, cnt)
	for i := 0; i < cnt; i++ {
		vals[i] = ex.sliceLoad(st, src, ex.i64(i))
	}
	for i := 0; i < cnt; i++ {
		g := tb.Slt(ex.i64(i), n)
		if g.IsFalse() || vals[i] == nil {
			continue
		}
		ex.sliceStore(st, dst, ex.i64(i), vals[i], g, site)
	}
	return n
}
