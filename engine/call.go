package main

// Calls: static, closures, interface dispatch, builtins, intrinsics, stubs
// and the harness primitives.

import (
	"fmt"
	"go/types"
	"strings"

	"golang.org/x/tools/go/ssa"
)

// realStdlib lists non-rtcp functions whose SSA bodies are executed as is.
func realStdlib(name string) bool {
	switch {
	case strings.HasPrefix(name, "(encoding/binary.bigEndian)."),
		strings.HasPrefix(name, "(*encoding/binary.bigEndian)."),
		name == "errors.New",
		name == "bytes.Equal",
		strings.HasPrefix(name, "unicode/utf8."),
		strings.HasPrefix(name, "(*errors.errorString)."):
		return true
	}
	return false
}

func (ex *Exec) call(s *State, c *ssa.CallCommon, site string) Value {
	args := make([]Value, 0, len(c.Args)+1)
	if c.IsInvoke() {
		rv := ex.val(s, c.Value)
		for _, a := range c.Args {
			args = append(args, ex.val(s, a))
		}
		if rt, ok := rv.(*ReflectType); ok {
			return ex.reflectTypeMethod(s, rt, c.Method.Name(), args, site)
		}
		return ex.invoke(s, rv.(*IfaceV), c.Method, args, site)
	}
	for _, a := range c.Args {
		args = append(args, ex.val(s, a))
	}
	switch f := c.Value.(type) {
	case *ssa.Builtin:
		return ex.builtin(s, f, c, args, site)
	case *ssa.Function:
		return ex.callFn(s, f, args, nil, site)
	}
	fv := ex.val(s, c.Value)
	cl, ok := fv.(*ClosureV)
	if !ok {
		unsup("call of %T", fv)
	}
	if cl.native != nil {
		return cl.native(ex, s, args)
	}
	if cl.fn == nil {
		ex.vc(s, "panic", site+": call of nil func", ex.tb.True)
		return nil
	}
	return ex.callFn(s, cl.fn, args, cl.bind, site)
}

func (ex *Exec) callFn(s *State, f *ssa.Function, args []Value, bind []Value, site string) Value {
	name := f.String()
	if r, ok := ex.intrinsic(s, f, name, args, site); ok {
		return r
	}
	if f.Blocks == nil {
		unsup("function without body: %s", name)
	}
	if f.Pkg != nil && f.Pkg != ex.pkg && !realStdlib(name) {
		unsup("external function %s not modelled", name)
	}
	// split calls whose interface-typed arguments carry several dynamic types
	if f.Pkg == ex.pkg && ex.splitIfaceArgs(f) {
		for i, a := range args {
			iv, ok := a.(*IfaceV)
			if !ok {
				continue
			}
			var live []IAlt
			for _, al := range iv.alts {
				if !ex.simp(s, al.g).IsFalse() {
					live = append(live, al)
				}
			}
			if len(live) <= 1 {
				continue
			}
			return ex.splitCall(s, f, args, bind, i, live, site)
		}
	}
	r, ok := ex.callFunction(s, f, args, bind)
	if !ok {
		return nil
	}
	return r
}

func (ex *Exec) invoke(s *State, recv *IfaceV, m *types.Func, args []Value, site string) Value {
	tb := ex.tb
	var nilG []*Term
	for _, a := range recv.alts {
		if a.typ == nil {
			nilG = append(nilG, a.g)
		}
	}
	if len(nilG) > 0 {
		ex.vc(s, "panic", site+": nil interface method call", tb.Or(nilG...))
		if s.dead {
			return nil
		}
	}
	type outcome struct {
		st  *State
		ret Value
	}
	var outs []outcome
	r0 := ex.restrictions
	prePC := s.pc[:len(s.pc):len(s.pc)]
	live := 0
	for _, a := range recv.alts {
		if a.typ != nil && !ex.simp(s, a.g).IsFalse() {
			live++
		}
	}
	for _, a := range recv.alts {
		if a.typ == nil {
			continue
		}
		g := ex.simp(s, a.g)
		if g.IsFalse() {
			continue
		}
		fn := ex.methodOf(a.typ, m)
		if fn == nil {
			unsup("no method %s on %v", m.Name(), a.typ)
		}
		cs := s
		if live > 1 {
			cs = s.clone()
			if !ex.assume(cs, g) {
				continue
			}
		}
		full := append([]Value{a.v}, args...)
		r := ex.callFn(cs, fn, full, nil, site)
		if cs.dead {
			if live == 1 {
				return nil
			}
			continue
		}
		if live > 1 {
			cs.regs = map[interface{}]Value{}
		}
		outs = append(outs, outcome{cs, r})
	}
	if live <= 1 {
		if len(outs) == 0 {
			s.dead = true
			return nil
		}
		return outs[0].ret
	}
	if len(outs) == 0 {
		s.dead = true
		return nil
	}
	// merge all outcomes back into s
	acc := outs[0].st
	acc.ret = outs[0].ret
	for _, o := range outs[1:] {
		o.st.ret = o.ret
		// registers of the caller frame are identical; keep them out of the merge
		acc = ex.mergeStates(acc, o.st)
	}
	regs := s.regs
	*s = *acc
	s.regs = regs
	s.regsShare = false
	if ex.restrictions == r0 {
		s.pc = prePC
		ex.rebuildFacts(s)
	}
	ret := s.ret
	s.ret = nil
	return ret
}

func (ex *Exec) splitIfaceArgs(f *ssa.Function) bool {
	switch f.Name() {
	case "read", "write", "wireSize", "formatField", "stringify":
		return true
	}
	return false
}

// splitCall runs f once per dynamic type of argument i and merges the outcomes.
func (ex *Exec) splitCall(s *State, f *ssa.Function, args []Value, bind []Value, i int, live []IAlt, site string) Value {
	var acc *State
	r0 := ex.restrictions
	prePC := s.pc[:len(s.pc):len(s.pc)]
	for _, al := range live {
		cs := s.clone()
		if !ex.assume(cs, al.g) {
			continue
		}
		na := append([]Value(nil), args...)
		na[i] = &IfaceV{alts: []IAlt{{g: ex.tb.True, typ: al.typ, v: al.v}}}
		r := ex.callFn(cs, f, na, bind, site)
		if cs.dead {
			continue
		}
		cs.ret = r
		cs.regs = map[interface{}]Value{}
		if acc == nil {
			acc = cs
		} else {
			acc = ex.mergeStates(acc, cs)
		}
	}
	if acc == nil {
		s.dead = true
		return nil
	}
	regs := s.regs
	*s = *acc
	s.regs = regs
	s.regsShare = false
	if ex.restrictions == r0 {
		s.pc = prePC
		ex.rebuildFacts(s)
	}
	ret := s.ret
	s.ret = nil
	return ret
}

func (ex *Exec) methodOf(t types.Type, m *types.Func) *ssa.Function {
	ms := ex.prog.MethodSets.MethodSet(t)
	sel := ms.Lookup(m.Pkg(), m.Name())
	if sel == nil {
		return nil
	}
	return ex.prog.MethodValue(sel)
}

func (ex *Exec) builtin(s *State, b *ssa.Builtin, c *ssa.CallCommon, args []Value, site string) Value {
	tb := ex.tb
	switch b.Name() {
	case "len":
		switch x := args[0].(type) {
		case *SliceV:
			return x.ln
		case *MapV:
			return ex.i64(len(x.entries))
		case *PtrV: // *array
			return ex.i64(int(c.Args[0].Type().Underlying().(*types.Pointer).Elem().Underlying().(*types.Array).Len()))
		case *ArrayV:
			return ex.i64(len(x.e))
		}
	case "cap":
		switch x := args[0].(type) {
		case *SliceV:
			return x.cp
		case *ArrayV:
			return ex.i64(len(x.e))
		}
	case "append":
		sl := args[0].(*SliceV)
		t := args[1].(*SliceV)
		et := c.Args[0].Type().Underlying().(*types.Slice).Elem()
		return ex.appendOp(s, sl, t, et, site)
	case "copy":
		return ex.copyOp(s, args[0].(*SliceV), args[1].(*SliceV), site)
	case "ssa:wrapnilchk":
		p := args[0].(*PtrV)
		var nilG []*Term
		for _, a := range ex.eff(p) {
			if a.obj == 0 {
				nilG = append(nilG, a.g)
			}
		}
		if len(nilG) > 0 {
			ex.vc(s, "panic", site+": nil receiver in wrapper", tb.Or(nilG...))
		}
		return p
	case "min", "max":
		x, y := args[0].(*Term), args[1].(*Term)
		t := c.Args[0].Type()
		var lt *Term
		if isSigned(t) {
			lt = tb.Slt(x, y)
		} else {
			lt = tb.Ult(x, y)
		}
		if b.Name() == "min" {
			return tb.Ite(lt, x, y)
		}
		return tb.Ite(lt, y, x)
	}
	unsup("builtin %s", b.Name())
	return nil
}

// ---------------------------------------------------------------- intrinsics

func (ex *Exec) freshNondet(kind string, w int) *Term {
	name := fmt.Sprintf("nd%d", len(ex.nondets))
	var t *Term
	if kind == "bool" {
		t = ex.tb.Var(name, BoolSort)
	} else {
		t = ex.tb.Var(name, BVSort(w))
	}
	ex.nondets = append(ex.nondets, nondet{t, kind})
	return t
}

func constInt(v Value, what string) int {
	t, ok := v.(*Term)
	if !ok || !t.IsConst() {
		unsup("%s must be a concrete integer", what)
	}
	return int(sext(t.val, t.sort.W))
}

func (ex *Exec) constString(s *State, v Value) string {
	sl := v.(*SliceV)
	if sl.opaque || !sl.ln.IsConst() {
		unsup("harness string argument must be constant")
	}
	n := int(sl.ln.val)
	b := make([]byte, n)
	for i := 0; i < n; i++ {
		t := ex.sliceLoad(s, sl, ex.i64(i)).(*Term)
		if !t.IsConst() {
			unsup("harness string argument must be constant")
		}
		b[i] = byte(t.val)
	}
	return string(b)
}

func (ex *Exec) intrinsic(s *State, f *ssa.Function, name string, args []Value, site string) (Value, bool) {
	tb := ex.tb
	if f.Pkg == ex.pkg && strings.HasPrefix(f.Name(), "vp") {
		switch f.Name() {
		case "vpU8":
			return ex.freshNondet("u8", 8), true
		case "vpU16":
			return ex.freshNondet("u16", 16), true
		case "vpU32":
			return ex.freshNondet("u32", 32), true
		case "vpU64":
			return ex.freshNondet("u64", 64), true
		case "vpBool":
			return ex.freshNondet("bool", 1), true
		case "vpF32":
			return tb.FpFromBits(ex.freshNondet("u32", 32)), true
		case "vpBytes":
			n := constInt(args[0], "vpBytes length")
			elems := make([]Value, n)
			for i := range elems {
				elems[i] = ex.freshNondet("u8", 8)
			}
			id := ex.newArrayObj(s, types.Typ[types.Uint8], elems, false)
			s.heap[id].name = "input buffer"
			return &SliceV{alts: []SAlt{{g: tb.True, obj: id, off: ex.i64(0)}}, ln: ex.i64(n), cp: ex.i64(n)}, true
		case "vpAssume":
			ex.restrictions++
			ex.assume(s, args[0].(*Term))
			return &TupleV{}, true
		case "vpAssert":
			nm := ex.constString(s, args[0])
			ex.reach(s, "assert:"+nm)
			ex.vc(s, "assert", nm, tb.Not(args[1].(*Term)))
			return &TupleV{}, true
		case "vpReach":
			ex.reach(s, "reach:"+ex.constString(s, args[0]))
			return &TupleV{}, true
		case "vpKnown":
			id := ex.constString(s, args[0])
			st := ex.constString(s, args[1])
			ex.known = append(ex.known, knownPred{id: id, site: st, pred: args[2].(*Term)})
			return &TupleV{}, true
		case "vpAllocBytes":
			return s.alloc, true
		case "vpFreeze":
			ex.footprint = true
			s.ownHeap()
			for id, o := range s.heap {
				if !o.frozen {
					n := *o
					n.frozen = true
					s.heap[id] = &n
				}
			}
			return &TupleV{}, true
		case "vpThaw":
			ex.footprint = false
			s.ownHeap()
			for id, o := range s.heap {
				if o.frozen {
					n := *o
					n.frozen = false
					n.allow = nil
					s.heap[id] = &n
				}
			}
			return &TupleV{}, true
		case "vpAllowWrite":
			// permits stores below the pointed-to location while frozen
			p := ex.ifacePtr(args[0])
			s.ownHeap()
			for _, a := range ex.eff(p) {
				if a.obj == 0 {
					continue
				}
				n := *ex.obj(s, a.obj)
				n.allow = append(append([][]PathEl(nil), n.allow...), a.path)
				s.heap[a.obj] = &n
			}
			return &TupleV{}, true
		case "vpObserveU64":
			ex.observes = append(ex.observes, observe{name: ex.constString(s, args[0]), v: []*Term{args[1].(*Term)}, pc: ex.pcTerm(s)})
			return &TupleV{}, true
		case "vpObserveBool":
			ex.observes = append(ex.observes, observe{name: ex.constString(s, args[0]), v: []*Term{args[1].(*Term)}, pc: ex.pcTerm(s)})
			return &TupleV{}, true
		case "vpObserveBytes":
			sl := args[1].(*SliceV)
			if !sl.ln.IsConst() {
				// observe length and a bounded prefix
				n := ex.umaxLen(s, sl.ln, site)
				if n > 64 {
					n = 64
				}
				ts := []*Term{sl.ln}
				for i := 0; i < n; i++ {
					v := ex.sliceLoad(s, sl, ex.i64(i))
					if v == nil {
						break
					}
					in := tb.Slt(ex.i64(i), sl.ln)
					ts = append(ts, tb.Ite(in, tb.ZeroExt(v.(*Term), 64), ex.i64(0xFFFF)))
				}
				ex.observes = append(ex.observes, observe{name: ex.constString(s, args[0]), v: ts, pc: ex.pcTerm(s), bytes: true})
				return &TupleV{}, true
			}
			n := int(sl.ln.val)
			if n > 64 {
				n = 64
			}
			ts := []*Term{sl.ln}
			for i := 0; i < n; i++ {
				ts = append(ts, tb.ZeroExt(ex.sliceLoad(s, sl, ex.i64(i)).(*Term), 64))
			}
			ex.observes = append(ex.observes, observe{name: ex.constString(s, args[0]), v: ts, pc: ex.pcTerm(s), bytes: true})
			return &TupleV{}, true
		}
		if f.Blocks == nil {
			unsup("unknown harness primitive %s", f.Name())
		}
		return nil, false
	}
	switch name {
	case "math.Floor":
		return tb.FpFloor(args[0].(*Term)), true
	case "math.Float32frombits":
		return tb.FpFromBits(args[0].(*Term)), true
	case "math.Float64frombits":
		return tb.FpFromBits(args[0].(*Term)), true
	case "math.Float32bits", "math.Float64bits":
		x := args[0].(*Term)
		if x.op == OpFpFromBits {
			return x.args[0], true
		}
		if x.IsConst() {
			return tb.BV(x.val, x.sort.W), true
		}
		v := tb.Fresh("fbits", BVSort(x.sort.W))
		ex.restrictions++
		ex.assume(s, tb.Eq(tb.FpFromBits(v), x))
		return v, true
	case "math.IsNaN":
		return tb.FpIsNaN(args[0].(*Term)), true
	case "math/bits.Len32":
		x := args[0].(*Term)
		var r *Term = ex.i64(0)
		for i := 0; i < 32; i++ {
			bit := tb.Eq(tb.Extract(x, i, i), tb.BV(1, 1))
			r = tb.Ite(bit, ex.i64(i+1), r)
		}
		return r, true
	case "fmt.Sprintf", "fmt.Sprint", "fmt.Sprintln":
		ex.stubsSeen[name] = true
		ex.fmtArgs(s, args[len(args)-1], site)
		return ex.opaqueStr(s), true
	case "fmt.Errorf":
		ex.stubsSeen[name] = true
		ex.fmtArgs(s, args[len(args)-1], site)
		return ex.opaqueError(s), true
	case "strings.ReplaceAll", "strings.TrimSuffix", "strings.TrimSpace", "strings.Repeat":
		ex.stubsSeen[name] = true
		return ex.opaqueStr(s), true
	case "fmt.init", "errors.init", "encoding/binary.init", "math.init", "bytes.init", "reflect.init", "strings.init", "unsafe.init":
		return &TupleV{}, true
	}
	if strings.HasSuffix(name, ".init") && f.Pkg != ex.pkg {
		return &TupleV{}, true
	}
	if strings.HasPrefix(name, "reflect.") || strings.HasPrefix(name, "(reflect.") || strings.HasPrefix(name, "(*reflect.") {
		return ex.reflectCall(s, f, name, args, site), true
	}
	return nil, false
}

func (ex *Exec) ifacePtr(v Value) *PtrV {
	switch x := v.(type) {
	case *PtrV:
		return x
	case *IfaceV:
		for _, a := range x.alts {
			if p, ok := a.v.(*PtrV); ok {
				return p
			}
		}
	}
	unsup("expected pointer argument")
	return nil
}

// opaqueError returns a fresh non-nil error of an unknown dynamic type.
func (ex *Exec) opaqueError(s *State) Value {
	t := ex.opaqueErrType()
	id := ex.newObj(s, t.Elem(), ex.zero(t.Elem()), "fmt error")
	return ex.mkIface(t, ex.ptrTo(id))
}

func (ex *Exec) opaqueErrType() *types.Pointer {
	// *errors.errorString serves as the dynamic type of stubbed errors
	p := ex.prog.ImportedPackage("errors")
	obj := p.Pkg.Scope().Lookup("errorString")
	return types.NewPointer(obj.Type())
}

// fmtArgs visits the variadic arguments of a fmt call. Stringer/error
// operands have their String/Error methods executed like fmt would do, with
// panics inside them recorded as "recovered by fmt" rather than propagated.
func (ex *Exec) fmtArgs(s *State, va Value, site string) {
	sl, ok := va.(*SliceV)
	if !ok || !ex.fmtCallsMethods {
		return
	}
	if !sl.ln.IsConst() {
		return
	}
	n := int(sl.ln.val)
	for i := 0; i < n; i++ {
		v := ex.sliceLoad(s, sl, ex.i64(i))
		iv, ok := v.(*IfaceV)
		if !ok {
			continue
		}
		ex.fmtOperand(s, iv, site, 0)
	}
}
