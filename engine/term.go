package main

// Hash-consed SMT terms with constant folding and local rewrites.
// Bit-vectors are limited to 64 bits (Go's widest integer); floating point
// terms are only float32/float64.

import (
	"fmt"
	"math"
	"math/bits"
	"os"
	"strconv"
	"strings"
)

type SortKind uint8

const (
	SBool SortKind = iota
	SBV
	SFP
)

type Sort struct {
	K SortKind
	W int // BV width, or total FP width (32/64)
}

var (
	BoolSort = Sort{SBool, 0}
	F32Sort  = Sort{SFP, 32}
	F64Sort  = Sort{SFP, 64}
)

func BVSort(w int) Sort { return Sort{SBV, w} }

func (s Sort) String() string {
	switch s.K {
	case SBool:
		return "Bool"
	case SBV:
		return fmt.Sprintf("(_ BitVec %d)", s.W)
	default:
		if s.W == 32 {
			return "(_ FloatingPoint 8 24)"
		}
		return "(_ FloatingPoint 11 53)"
	}
}

type Op uint8

const (
	OpConst Op = iota
	OpVar
	OpNot
	OpAnd
	OpOr
	OpIte
	OpEq
	OpBvAdd
	OpBvSub
	OpBvMul
	OpBvUDiv
	OpBvURem
	OpBvSDiv
	OpBvSRem
	OpBvAnd
	OpBvOr
	OpBvXor
	OpBvNot
	OpBvNeg
	OpBvShl
	OpBvLShr
	OpBvAShr
	OpBvUlt
	OpBvUle
	OpBvSlt
	OpBvSle
	OpExtract // i1=hi, i2=lo
	OpConcat  // n-ary, msb first
	OpSignExt // i1 = extra bits
	// floating point
	OpFpAdd
	OpFpSub
	OpFpMul
	OpFpDiv
	OpFpNeg
	OpFpLt
	OpFpLe
	OpFpEq
	OpFpIsNaN
	OpFpFromBits  // bv -> fp (reinterpret)
	OpFpToFp      // fp -> fp (RNE)
	OpFpToUBV     // fp -> bv, RTZ, i1 = width
	OpFpToSBV     // fp -> bv, RTZ
	OpFpFromUBV   // bv -> fp RNE
	OpFpFromSBV   // bv -> fp RNE
	OpFpFloor     // roundToIntegral RTN
	OpFpRoundEven // unused
)

type Term struct {
	id    int
	op    Op
	sort  Sort
	args  []*Term
	val   uint64
	i1    int
	i2    int
	name  string
	ctree int8 // 0 unknown, 1 const tree, 2 not
	nleaf int
	mtree int8  // 0 unknown, 1 mostly-constant ite tree, 2 not
	mleaf int16 // leaves of the ite tree (capped)
	mcons int16 // constant leaves
	lzb   int16 // cached leading zero bits + 1 (0 = unknown)
	bst   int8  // cached bounds state: 0 unknown, 1 ok, 2 none
	bnd   ubounds
}

func (t *Term) IsConst() bool { return t.op == OpConst }
func (t *Term) IsTrue() bool  { return t.op == OpConst && t.sort.K == SBool && t.val == 1 }
func (t *Term) IsFalse() bool { return t.op == OpConst && t.sort.K == SBool && t.val == 0 }

type TB struct {
	nots  map[int]*Term
	tab   map[string]*Term
	terms []*Term
	nvar  int
	vars  []*Term
	True  *Term
	False *Term
	maxTerms int
}

func NewTB() *TB {
	tb := &TB{tab: map[string]*Term{}, nots: map[int]*Term{}}
	tb.True = tb.mk(&Term{op: OpConst, sort: BoolSort, val: 1})
	tb.False = tb.mk(&Term{op: OpConst, sort: BoolSort, val: 0})
	return tb
}

// lookup finds an existing binary term without creating it.
func (tb *TB) lookup(op Op, a, b *Term) (*Term, bool) {
	s := a.sort
	if op == OpEq || (op >= OpBvUlt && op <= OpBvSle) {
		s = BoolSort
	}
	k := fmt.Sprintf("%d|%d|%d|%d|%d|%d|%s|%d|%d", op, s.K, s.W, 0, 0, 0, "", a.id, b.id)
	t, ok := tb.tab[k]
	return t, ok
}

func (tb *TB) mk(t *Term) *Term {
	buf := make([]byte, 0, 48+8*len(t.args))
	buf = strconv.AppendInt(buf, int64(t.op), 10)
	buf = append(buf, '|')
	buf = strconv.AppendInt(buf, int64(t.sort.K), 10)
	buf = append(buf, '|')
	buf = strconv.AppendInt(buf, int64(t.sort.W), 10)
	buf = append(buf, '|')
	buf = strconv.AppendUint(buf, t.val, 10)
	buf = append(buf, '|')
	buf = strconv.AppendInt(buf, int64(t.i1), 10)
	buf = append(buf, '|')
	buf = strconv.AppendInt(buf, int64(t.i2), 10)
	buf = append(buf, '|')
	buf = append(buf, t.name...)
	for _, a := range t.args {
		buf = append(buf, '|')
		buf = strconv.AppendInt(buf, int64(a.id), 10)
	}
	k := string(buf)
	if e, ok := tb.tab[k]; ok {
		return e
	}
	t.id = len(tb.terms)
	if tb.maxTerms > 0 && t.id > tb.maxTerms {
		if os.Getenv("VP_DEBUGVC") != "" {
			h := map[string]int{}
			for _, x := range tb.terms[len(tb.terms)-500000:] {
				k := fmt.Sprintf("op%d/%s/%d", x.op, x.sort, len(x.args))
				h[k]++
			}
			fmt.Println("TERMHIST", h)
			for _, x := range tb.terms[len(tb.terms)-12:] {
				fmt.Println("  LAST", x.id, x.op, x.sort, x.body())
			}
		}
		panic(unsupported{"term budget exceeded"})
	}
	tb.terms = append(tb.terms, t)
	tb.tab[k] = t
	return t
}

func mask(w int) uint64 {
	if w >= 64 {
		return ^uint64(0)
	}
	return (uint64(1) << uint(w)) - 1
}

func sext(v uint64, w int) int64 {
	if w >= 64 {
		return int64(v)
	}
	if v&(1<<uint(w-1)) != 0 {
		return int64(v | ^mask(w))
	}
	return int64(v)
}

func (tb *TB) BV(v uint64, w int) *Term {
	return tb.mk(&Term{op: OpConst, sort: BVSort(w), val: v & mask(w)})
}

func (tb *TB) Bool(b bool) *Term {
	if b {
		return tb.True
	}
	return tb.False
}

func (tb *TB) FPConst(bitsv uint64, s Sort) *Term {
	return tb.mk(&Term{op: OpConst, sort: s, val: bitsv})
}

func (tb *TB) F32(f float32) *Term { return tb.FPConst(uint64(math.Float32bits(f)), F32Sort) }
func (tb *TB) F64(f float64) *Term { return tb.FPConst(math.Float64bits(f), F64Sort) }

func (tb *TB) Var(name string, s Sort) *Term {
	t := tb.mk(&Term{op: OpVar, sort: s, name: name})
	if t.id == len(tb.terms)-1 {
		tb.vars = append(tb.vars, t)
	}
	return t
}

func (tb *TB) Fresh(prefix string, s Sort) *Term {
	tb.nvar++
	return tb.Var(fmt.Sprintf("%s_%d", prefix, tb.nvar), s)
}

// ---------------------------------------------------------------- bool ops

func (tb *TB) Not(x *Term) *Term {
	if x.IsConst() {
		return tb.Bool(x.val == 0)
	}
	if x.op == OpNot {
		return x.args[0]
	}
	if n, ok := tb.nots[x.id]; ok {
		return n
	}
	n := tb.mk(&Term{op: OpNot, sort: BoolSort, args: []*Term{x}})
	tb.nots[x.id] = n
	return n
}

func (tb *TB) And(xs ...*Term) *Term {
	var out []*Term
	seen := map[int]bool{}
	var add func(x *Term) bool
	add = func(x *Term) bool {
		if x.IsTrue() {
			return true
		}
		if x.IsFalse() {
			return false
		}
		if x.op == OpAnd {
			for _, a := range x.args {
				if !add(a) {
					return false
				}
			}
			return true
		}
		if seen[x.id] {
			return true
		}
		// x and not x
		if x.op == OpNot && seen[x.args[0].id] {
			return false
		}
		seen[x.id] = true
		out = append(out, x)
		return true
	}
	for _, x := range xs {
		if !add(x) {
			return tb.False
		}
	}
	for _, x := range out {
		if x.op != OpNot {
			if n, ok := tb.tabNot(x); ok && seen[n.id] {
				return tb.False
			}
		}
	}
	if len(out) == 0 {
		return tb.True
	}
	if len(out) == 1 {
		return out[0]
	}
	return tb.mk(&Term{op: OpAnd, sort: BoolSort, args: out})
}

// tabNot returns the existing negation of x if it has already been built.
func (tb *TB) tabNot(x *Term) (*Term, bool) {
	t, ok := tb.nots[x.id]
	return t, ok
}

func (tb *TB) Or(xs ...*Term) *Term {
	var out []*Term
	seen := map[int]bool{}
	var add func(x *Term) bool // false => result is true
	add = func(x *Term) bool {
		if x.IsFalse() {
			return true
		}
		if x.IsTrue() {
			return false
		}
		if x.op == OpOr {
			for _, a := range x.args {
				if !add(a) {
					return false
				}
			}
			return true
		}
		if seen[x.id] {
			return true
		}
		if x.op == OpNot && seen[x.args[0].id] {
			return false
		}
		seen[x.id] = true
		out = append(out, x)
		return true
	}
	for _, x := range xs {
		if !add(x) {
			return tb.True
		}
	}
	for _, x := range out {
		if x.op != OpNot {
			if n, ok := tb.tabNot(x); ok && seen[n.id] {
				return tb.True
			}
		}
	}
	if len(out) == 0 {
		return tb.False
	}
	if len(out) == 1 {
		return out[0]
	}
	// or(and(c,A...), and(not c, A...)) => and(A...) : factor a complementary pair
	if len(out) == 2 && out[0].op == OpAnd && out[1].op == OpAnd {
		if r := tb.factorComplement(out[0], out[1]); r != nil {
			return r
		}
	}
	return tb.mk(&Term{op: OpOr, sort: BoolSort, args: out})
}

func (tb *TB) factorComplement(a, b *Term) *Term {
	if len(a.args) != len(b.args) {
		return nil
	}
	inB := map[int]bool{}
	for _, x := range b.args {
		inB[x.id] = true
	}
	var diffA *Term
	var common []*Term
	for _, x := range a.args {
		if inB[x.id] {
			common = append(common, x)
		} else if diffA == nil {
			diffA = x
		} else {
			return nil
		}
	}
	if diffA == nil {
		return a
	}
	n := tb.Not(diffA)
	if !inB[n.id] {
		return nil
	}
	return tb.And(common...)
}

func (tb *TB) Implies(a, b *Term) *Term { return tb.Or(tb.Not(a), b) }

func (tb *TB) Ite(c, a, b *Term) *Term {
	if c.IsTrue() {
		return a
	}
	if c.IsFalse() {
		return b
	}
	if a == b {
		return a
	}
	if a.sort != b.sort {
		panic(fmt.Sprintf("ite sort mismatch %v %v", a.sort, b.sort))
	}
	if c.op == OpNot {
		return tb.Ite(c.args[0], b, a)
	}
	if a.sort.K == SBool {
		if a.IsTrue() && b.IsFalse() {
			return c
		}
		if a.IsFalse() && b.IsTrue() {
			return tb.Not(c)
		}
		if a.IsTrue() {
			return tb.Or(c, b)
		}
		if a.IsFalse() {
			return tb.And(tb.Not(c), b)
		}
		if b.IsTrue() {
			return tb.Or(tb.Not(c), a)
		}
		if b.IsFalse() {
			return tb.And(c, a)
		}
	}
	// ite(c, ite(d, x, y), y) => ite(c and d, x, y): keeps guarded updates linear
	if a.op == OpIte && a.args[2] == b {
		return tb.Ite(tb.And(c, a.args[0]), a.args[1], b)
	}
	if a.op == OpIte && a.args[1] == b {
		return tb.Ite(tb.And(c, tb.Not(a.args[0])), a.args[2], b)
	}
	if b.op == OpIte && b.args[2] == a {
		return tb.Ite(tb.And(tb.Not(c), b.args[0]), b.args[1], a)
	}
	if b.op == OpIte && b.args[1] == a {
		return tb.Ite(tb.And(tb.Not(c), tb.Not(b.args[0])), b.args[2], a)
	}
	// ite(c, x, ite(c, y, z)) => ite(c, x, z)
	if b.op == OpIte && b.args[0] == c {
		return tb.Ite(c, a, b.args[2])
	}
	if a.op == OpIte && a.args[0] == c {
		return tb.Ite(c, a.args[1], b)
	}
	return tb.mk(&Term{op: OpIte, sort: a.sort, args: []*Term{c, a, b}})
}

// isCTree reports whether t is a constant or an ite tree with constant leaves
// (at most 64 leaves).
func (tb *TB) isCTree(t *Term) bool {
	if t.ctree != 0 {
		return t.ctree == 1
	}
	r := false
	if t.op == OpConst {
		r = true
		t.nleaf = 1
	} else if t.op == OpIte && tb.isCTree(t.args[1]) && tb.isCTree(t.args[2]) {
		n := t.args[1].nleaf + t.args[2].nleaf
		if n <= 64 {
			r = true
			t.nleaf = n
		}
	}
	if r {
		t.ctree = 1
	} else {
		t.ctree = 2
	}
	return r
}

// treeStats counts the leaves (non-ite subterms) of the ite tree rooted at t,
// capped at 33.
func (tb *TB) treeStats(t *Term) (int, int) {
	if t.mtree != 0 {
		return int(t.mleaf), int(t.mcons)
	}
	var n, c int
	if t.op != OpIte {
		n = 1
		if t.op == OpConst {
			c = 1
		}
	} else {
		n1, c1 := tb.treeStats(t.args[1])
		n2, c2 := tb.treeStats(t.args[2])
		n, c = n1+n2, c1+c2
		if n > 33 {
			n = 33
		}
	}
	t.mleaf, t.mcons = int16(n), int16(c)
	if t.op == OpIte && n <= 32 && c*2 >= n {
		t.mtree = 1
	} else {
		t.mtree = 2
	}
	return n, c
}

// isMTree: an ite tree with at most 32 leaves of which at least half are constants.
func (tb *TB) isMTree(t *Term) bool {
	if t.op != OpIte {
		return false
	}
	tb.treeStats(t)
	return t.mtree == 1
}

func (tb *TB) mapTree(t *Term, f func(*Term) *Term) *Term {
	if t.op != OpIte {
		return f(t)
	}
	return tb.Ite(t.args[0], tb.mapTree(t.args[1], f), tb.mapTree(t.args[2], f))
}

// specLift pushes f into the leaves of the ite tree a when that turns at
// least half of the leaves into constants (e.g. (id+k) - id).
func (tb *TB) specLift(a *Term, f func(*Term) *Term) *Term {
	if a.op != OpIte {
		return nil
	}
	n, _ := tb.treeStats(a)
	if n > 32 {
		return nil
	}
	nconst := 0
	var rec func(t *Term) *Term
	rec = func(t *Term) *Term {
		if t.op != OpIte {
			r := f(t)
			if r.IsConst() {
				nconst++
			}
			return r
		}
		return tb.Ite(t.args[0], rec(t.args[1]), rec(t.args[2]))
	}
	r := rec(a)
	if nconst*2 >= n {
		return r
	}
	return nil
}

func (tb *TB) mapCTree(t *Term, f func(*Term) *Term) *Term {
	if t.op == OpConst {
		return f(t)
	}
	return tb.Ite(t.args[0], tb.mapCTree(t.args[1], f), tb.mapCTree(t.args[2], f))
}

// liftBin lifts a binary operation over constant trees when one side is a
// non-trivial constant tree and the other a constant (or small tree).
func (tb *TB) liftBin(a, b *Term, f func(x, y *Term) *Term) *Term {
	if a.op == OpIte && tb.isCTree(a) && tb.isCTree(b) && a.nleaf*b.nleaf <= 64 {
		return tb.mapCTree(a, func(x *Term) *Term {
			if b.op == OpConst {
				return f(x, b)
			}
			return tb.mapCTree(b, func(y *Term) *Term { return f(x, y) })
		})
	}
	if b.op == OpIte && a.op == OpConst && tb.isCTree(b) {
		return tb.mapCTree(b, func(y *Term) *Term { return f(a, y) })
	}
	if b.op == OpConst && tb.isMTree(a) {
		return tb.mapTree(a, func(x *Term) *Term { return f(x, b) })
	}
	if a.op == OpConst && tb.isMTree(b) {
		return tb.mapTree(b, func(y *Term) *Term { return f(a, y) })
	}
	return nil
}

func (tb *TB) Eq(a, b *Term) *Term {
	if a == b {
		if a.sort.K == SFP {
			// structural equality on FP terms is only used for bit-identical
			// comparisons; fp.eq is FpEq.
		}
		return tb.True
	}
	if a.sort != b.sort {
		panic(fmt.Sprintf("eq sort mismatch %v %v", a.sort, b.sort))
	}
	if a.IsConst() && b.IsConst() {
		return tb.Bool(a.val == b.val)
	}
	if a.sort.K == SBool {
		if a.IsTrue() {
			return b
		}
		if b.IsTrue() {
			return a
		}
		if a.IsFalse() {
			return tb.Not(b)
		}
		if b.IsFalse() {
			return tb.Not(a)
		}
	}
	if r := tb.liftBin(a, b, tb.Eq); r != nil {
		return r
	}
	if a.sort.K == SBV {
		// range check against a constant
		if b.IsConst() && !a.IsConst() {
			if bd, ok := tb.boundsOf(a); ok && (b.val < bd.lo || b.val > bd.hi) {
				return tb.False
			}
		} else if a.IsConst() && !b.IsConst() {
			if bd, ok := tb.boundsOf(b); ok && (a.val < bd.lo || a.val > bd.hi) {
				return tb.False
			}
		}
		// piecewise equality against a constant for concats with constant parts
		if b.IsConst() && a.op == OpConcat {
			return tb.eqConcatConst(a, b)
		}
		if a.IsConst() && b.op == OpConcat {
			return tb.eqConcatConst(b, a)
		}
		// x+k1 == x+k2
		ab, ak := addParts(a)
		bb, bk := addParts(b)
		if ab != nil && ab == bb {
			return tb.Bool(ak == bk)
		}
	}
	if a.id > b.id {
		a, b = b, a
	}
	if ex, ok := tb.lookup(OpEq, a, b); ok {
		return ex
	}
	if a.sort.K == SBV {
		if r := tb.specLift(a, func(x *Term) *Term { return tb.Eq(x, b) }); r != nil {
			return r
		}
		if r := tb.specLift(b, func(y *Term) *Term { return tb.Eq(a, y) }); r != nil {
			return r
		}
	}
	return tb.mk(&Term{op: OpEq, sort: BoolSort, args: []*Term{a, b}})
}

func (tb *TB) eqConcatConst(c, k *Term) *Term {
	// c = concat(parts...), k const: and of per-part equalities
	var conj []*Term
	pos := c.sort.W
	for _, p := range c.args {
		w := p.sort.W
		lo := pos - w
		kv := (k.val >> uint(lo)) & mask(w)
		if p.IsConst() {
			if p.val != kv {
				return tb.False
			}
		} else {
			conj = append(conj, tb.mkEqRaw(p, tb.BV(kv, w)))
		}
		pos = lo
	}
	return tb.And(conj...)
}

func (tb *TB) mkEqRaw(a, b *Term) *Term {
	if a == b {
		return tb.True
	}
	if a.IsConst() && b.IsConst() {
		return tb.Bool(a.val == b.val)
	}
	if r := tb.liftBin(a, b, tb.mkEqRaw); r != nil {
		return r
	}
	if a.id > b.id {
		a, b = b, a
	}
	return tb.mk(&Term{op: OpEq, sort: BoolSort, args: []*Term{a, b}})
}

// ---------------------------------------------------------------- bit-vectors

type seg struct {
	t  *Term // nil => constant
	v  uint64
	w  int
	hi int // for t != nil: bits hi..lo of t
	lo int
}

// segments decomposes t (msb first) into constants and slices of atoms.
func (tb *TB) segments(t *Term) []seg {
	switch t.op {
	case OpConst:
		return []seg{{v: t.val, w: t.sort.W}}
	case OpConcat:
		var out []seg
		for _, a := range t.args {
			out = append(out, tb.segments(a)...)
		}
		return out
	case OpExtract:
		return []seg{{t: t.args[0], w: t.sort.W, hi: t.i1, lo: t.i2}}
	}
	return []seg{{t: t, w: t.sort.W, hi: t.sort.W - 1, lo: 0}}
}

func (tb *TB) segTerm(s seg) *Term {
	if s.t == nil {
		return tb.BV(s.v, s.w)
	}
	return tb.extractRaw(s.t, s.hi, s.lo)
}

func (tb *TB) extractRaw(x *Term, hi, lo int) *Term {
	if lo == 0 && hi == x.sort.W-1 {
		return x
	}
	return tb.mk(&Term{op: OpExtract, sort: BVSort(hi - lo + 1), args: []*Term{x}, i1: hi, i2: lo})
}

// fromSegs rebuilds a term from segments, merging adjacent constants and
// adjacent contiguous slices of the same atom.
func (tb *TB) fromSegs(ss []seg) *Term {
	var out []seg
	for _, s := range ss {
		if s.w == 0 {
			continue
		}
		if n := len(out); n > 0 {
			p := &out[n-1]
			if p.t == nil && s.t == nil && p.w+s.w <= 64 {
				p.v = (p.v << uint(s.w)) | s.v
				p.w += s.w
				continue
			}
			if p.t != nil && p.t == s.t && p.lo == s.hi+1 {
				p.lo = s.lo
				p.w += s.w
				continue
			}
		}
		out = append(out, s)
	}
	if len(out) == 1 {
		return tb.segTerm(out[0])
	}
	args := make([]*Term, len(out))
	w := 0
	for i, s := range out {
		args[i] = tb.segTerm(s)
		w += s.w
	}
	return tb.mk(&Term{op: OpConcat, sort: BVSort(w), args: args})
}

func splitSeg(s seg, wHigh int) (seg, seg) {
	// split s into its top wHigh bits and the rest
	wl := s.w - wHigh
	if s.t == nil {
		return seg{v: s.v >> uint(wl), w: wHigh}, seg{v: s.v & mask(wl), w: wl}
	}
	return seg{t: s.t, w: wHigh, hi: s.hi, lo: s.hi - wHigh + 1}, seg{t: s.t, w: wl, hi: s.hi - wHigh, lo: s.lo}
}

// align produces two segment lists with identical widths.
func align(a, b []seg) ([]seg, []seg) {
	var oa, ob []seg
	i, j := 0, 0
	var ca, cb seg
	ha, hb := false, false
	for {
		if !ha {
			if i >= len(a) {
				break
			}
			ca = a[i]
			i++
			ha = true
		}
		if !hb {
			if j >= len(b) {
				break
			}
			cb = b[j]
			j++
			hb = true
		}
		switch {
		case ca.w == cb.w:
			oa = append(oa, ca)
			ob = append(ob, cb)
			ha, hb = false, false
		case ca.w > cb.w:
			h, r := splitSeg(ca, cb.w)
			oa = append(oa, h)
			ob = append(ob, cb)
			ca = r
			hb = false
		default:
			h, r := splitSeg(cb, ca.w)
			oa = append(oa, ca)
			ob = append(ob, h)
			cb = r
			ha = false
		}
	}
	return oa, ob
}

func isStructured(t *Term) bool {
	return t.op == OpConcat || t.op == OpConst || t.op == OpExtract
}

func (tb *TB) Extract(x *Term, hi, lo int) *Term {
	if lo == 0 && hi == x.sort.W-1 {
		return x
	}
	if hi < lo || hi >= x.sort.W {
		panic("bad extract")
	}
	switch x.op {
	case OpConst:
		return tb.BV(x.val>>uint(lo), hi-lo+1)
	case OpExtract:
		return tb.Extract(x.args[0], x.i2+hi, x.i2+lo)
	case OpConcat:
		ss := tb.segments(x)
		var out []seg
		pos := x.sort.W
		for _, s := range ss {
			top := pos - 1
			bot := pos - s.w
			pos = bot
			if top < lo || bot > hi {
				continue
			}
			h := top
			if h > hi {
				h = hi
			}
			l := bot
			if l < lo {
				l = lo
			}
			// take bits h..l of the whole => bits (h-bot)..(l-bot) of s
			if s.t == nil {
				out = append(out, seg{v: (s.v >> uint(l-bot)) & mask(h-l+1), w: h - l + 1})
			} else {
				out = append(out, seg{t: s.t, w: h - l + 1, hi: s.lo + (h - bot), lo: s.lo + (l - bot)})
			}
		}
		return tb.fromSegs(out)
	case OpIte:
		if tb.isCTree(x) || tb.isMTree(x) {
			return tb.mapTree(x, func(k *Term) *Term { return tb.Extract(k, hi, lo) })
		}
	case OpSignExt:
		if hi < x.args[0].sort.W {
			return tb.Extract(x.args[0], hi, lo)
		}
	case OpBvAnd, OpBvOr, OpBvXor:
		// distribute extract over bitwise ops: keeps byte-level structure
		a := tb.Extract(x.args[0], hi, lo)
		b := tb.Extract(x.args[1], hi, lo)
		return tb.bitwise(x.op, a, b)
	case OpBvAdd, OpBvSub, OpBvMul:
		if lo == 0 {
			// low bits of modular arithmetic depend only on low bits
			a := tb.Extract(x.args[0], hi, 0)
			b := tb.Extract(x.args[1], hi, 0)
			switch x.op {
			case OpBvAdd:
				return tb.Add(a, b)
			case OpBvSub:
				return tb.Sub(a, b)
			default:
				return tb.Mul(a, b)
			}
		}
	}
	return tb.extractRaw(x, hi, lo)
}

func (tb *TB) Concat(xs ...*Term) *Term {
	var ss []seg
	for _, x := range xs {
		ss = append(ss, tb.segments(x)...)
	}
	return tb.fromSegs(ss)
}

func (tb *TB) ZeroExt(x *Term, w int) *Term {
	if w == x.sort.W {
		return x
	}
	if w < x.sort.W {
		return tb.Extract(x, w-1, 0)
	}
	if x.op == OpIte && (tb.isCTree(x) || tb.isMTree(x)) {
		return tb.mapTree(x, func(k *Term) *Term { return tb.ZeroExt(k, w) })
	}
	return tb.Concat(tb.BV(0, w-x.sort.W), x)
}

func (tb *TB) SignExt(x *Term, w int) *Term {
	if w == x.sort.W {
		return x
	}
	if w < x.sort.W {
		return tb.Extract(x, w-1, 0)
	}
	if x.IsConst() {
		return tb.BV(uint64(sext(x.val, x.sort.W)), w)
	}
	if x.op == OpIte && (tb.isCTree(x) || tb.isMTree(x)) {
		return tb.mapTree(x, func(k *Term) *Term { return tb.SignExt(k, w) })
	}
	// known-zero top bit => zero extension
	if x.op == OpConcat && x.args[0].IsConst() && x.args[0].val>>(uint(x.args[0].sort.W)-1) == 0 {
		return tb.Concat(tb.BV(0, w-x.sort.W), x)
	}
	return tb.mk(&Term{op: OpSignExt, sort: BVSort(w), args: []*Term{x}, i1: w - x.sort.W})
}

func (tb *TB) bitwise(op Op, a, b *Term) *Term {
	w := a.sort.W
	if a.sort != b.sort {
		panic(fmt.Sprintf("bitwise sort mismatch %v %v", a.sort, b.sort))
	}
	if a.IsConst() && b.IsConst() {
		switch op {
		case OpBvAnd:
			return tb.BV(a.val&b.val, w)
		case OpBvOr:
			return tb.BV(a.val|b.val, w)
		default:
			return tb.BV(a.val^b.val, w)
		}
	}
	if a == b {
		if op == OpBvXor {
			return tb.BV(0, w)
		}
		return a
	}
	if r := tb.liftBin(a, b, func(x, y *Term) *Term { return tb.bitwise(op, x, y) }); r != nil {
		return r
	}
	if a.IsConst() || b.IsConst() || (isStructured(a) && isStructured(b)) {
		sa, sb := align(tb.segments(a), tb.segments(b))
		out := make([]seg, 0, len(sa))
		ok := true
		for i := range sa {
			x, y := sa[i], sb[i]
			if x.t == nil && y.t == nil {
				var v uint64
				switch op {
				case OpBvAnd:
					v = x.v & y.v
				case OpBvOr:
					v = x.v | y.v
				default:
					v = x.v ^ y.v
				}
				out = append(out, seg{v: v, w: x.w})
				continue
			}
			if y.t == nil {
				x, y = y, x
			}
			if x.t == nil {
				// const op term
				m := mask(x.w)
				switch {
				case op == OpBvAnd && x.v == 0:
					out = append(out, seg{v: 0, w: x.w})
				case op == OpBvAnd && x.v == m:
					out = append(out, y)
				case op == OpBvOr && x.v == 0:
					out = append(out, y)
				case op == OpBvOr && x.v == m:
					out = append(out, seg{v: m, w: x.w})
				case op == OpBvXor && x.v == 0:
					out = append(out, y)
				default:
					// partial mask inside a segment: split into runs of equal bits
					if op == OpBvXor {
						ok = false
					} else {
						out = append(out, maskRuns(op, x.v, y)...)
					}
				}
				continue
			}
			if x.t == y.t && x.hi == y.hi && x.lo == y.lo {
				if op == OpBvXor {
					out = append(out, seg{v: 0, w: x.w})
				} else {
					out = append(out, x)
				}
				continue
			}
			ok = false
		}
		if ok {
			return tb.fromSegs(out)
		}
	}
	if a.id > b.id {
		a, b = b, a
	}
	return tb.mk(&Term{op: op, sort: a.sort, args: []*Term{a, b}})
}

// maskRuns applies and/or with constant k to slice y, splitting into runs.
func maskRuns(op Op, k uint64, y seg) []seg {
	var out []seg
	w := y.w
	i := w - 1
	for i >= 0 {
		bit := (k >> uint(i)) & 1
		j := i
		for j >= 0 && (k>>uint(j))&1 == bit {
			j--
		}
		rw := i - j
		keep := (op == OpBvAnd && bit == 1) || (op == OpBvOr && bit == 0)
		if keep {
			out = append(out, seg{t: y.t, w: rw, hi: y.lo + i, lo: y.lo + j + 1})
		} else if op == OpBvAnd {
			out = append(out, seg{v: 0, w: rw})
		} else {
			out = append(out, seg{v: mask(rw), w: rw})
		}
		i = j
	}
	return out
}

func (tb *TB) BvAnd(a, b *Term) *Term { return tb.bitwise(OpBvAnd, a, b) }
func (tb *TB) BvOr(a, b *Term) *Term  { return tb.bitwise(OpBvOr, a, b) }
func (tb *TB) BvXor(a, b *Term) *Term { return tb.bitwise(OpBvXor, a, b) }

func (tb *TB) BvNot(a *Term) *Term {
	if a.IsConst() {
		return tb.BV(^a.val, a.sort.W)
	}
	if a.op == OpBvNot {
		return a.args[0]
	}
	if a.op == OpIte && tb.isCTree(a) {
		return tb.mapCTree(a, tb.BvNot)
	}
	return tb.mk(&Term{op: OpBvNot, sort: a.sort, args: []*Term{a}})
}

func (tb *TB) Neg(a *Term) *Term {
	if a.IsConst() {
		return tb.BV(-a.val, a.sort.W)
	}
	return tb.Sub(tb.BV(0, a.sort.W), a)
}

// disjoint reports whether a and b have no bit position where both may be 1,
// judged from constant-zero segments.
func (tb *TB) disjoint(a, b *Term) bool {
	if !(isStructured(a) && isStructured(b)) {
		return false
	}
	sa, sb := align(tb.segments(a), tb.segments(b))
	for i := range sa {
		x, y := sa[i], sb[i]
		if x.t == nil && y.t == nil {
			if x.v&y.v != 0 {
				return false
			}
			continue
		}
		if x.t == nil && x.v == 0 || y.t == nil && y.v == 0 {
			continue
		}
		return false
	}
	return true
}

func (tb *TB) Add(a, b *Term) *Term {
	w := a.sort.W
	if a.sort != b.sort {
		panic(fmt.Sprintf("add sort mismatch %v %v", a.sort, b.sort))
	}
	if a.IsConst() && b.IsConst() {
		return tb.BV(a.val+b.val, w)
	}
	if a.IsConst() {
		a, b = b, a
	}
	if b.IsConst() {
		if b.val == 0 {
			return a
		}
		// (x + k1) + k2
		if a.op == OpBvAdd && a.args[1].IsConst() {
			return tb.Add(a.args[0], tb.BV(a.args[1].val+b.val, w))
		}
		if a.op == OpBvSub && a.args[1].IsConst() {
			return tb.Add(a.args[0], tb.BV(b.val-a.args[1].val, w))
		}
	}
	if r := tb.liftBin(a, b, tb.Add); r != nil {
		return r
	}
	if tb.disjoint(a, b) {
		return tb.BvOr(a, b)
	}
	if !b.IsConst() && a.id > b.id {
		a, b = b, a
	}
	return tb.mk(&Term{op: OpBvAdd, sort: a.sort, args: []*Term{a, b}})
}

func (tb *TB) Sub(a, b *Term) *Term {
	w := a.sort.W
	if a.sort != b.sort {
		panic(fmt.Sprintf("sub sort mismatch %v %v", a.sort, b.sort))
	}
	if a.IsConst() && b.IsConst() {
		return tb.BV(a.val-b.val, w)
	}
	if a == b {
		return tb.BV(0, w)
	}
	if b.IsConst() {
		return tb.Add(a, tb.BV(-b.val, w))
	}
	// (x + k) - x = k ; (x+k1) - (x+k2)
	ab, ak := addParts(a)
	bb, bk := addParts(b)
	if ab == bb && ab != nil {
		return tb.BV(ak-bk, w)
	}
	if r := tb.liftBin(a, b, tb.Sub); r != nil {
		return r
	}
	if ex, ok := tb.lookup(OpBvSub, a, b); ok {
		return ex
	}
	if r := tb.specLift(a, func(x *Term) *Term { return tb.Sub(x, b) }); r != nil {
		return r
	}
	if r := tb.specLift(b, func(y *Term) *Term { return tb.Sub(a, y) }); r != nil {
		return r
	}
	return tb.mk(&Term{op: OpBvSub, sort: a.sort, args: []*Term{a, b}})
}

func addParts(t *Term) (*Term, uint64) {
	if t.op == OpBvAdd && t.args[1].IsConst() {
		return t.args[0], t.args[1].val
	}
	if t.op == OpConst {
		return nil, t.val
	}
	return t, 0
}

func (tb *TB) Mul(a, b *Term) *Term {
	w := a.sort.W
	if a.sort != b.sort {
		panic("mul sort mismatch")
	}
	if a.IsConst() && b.IsConst() {
		return tb.BV(a.val*b.val, w)
	}
	if a.IsConst() {
		a, b = b, a
	}
	if b.IsConst() {
		if b.val == 0 {
			return b
		}
		if b.val == 1 {
			return a
		}
		if b.val&(b.val-1) == 0 {
			return tb.Shl(a, tb.BV(uint64(bits.TrailingZeros64(b.val)), w))
		}
	}
	if r := tb.liftBin(a, b, tb.Mul); r != nil {
		return r
	}
	return tb.mk(&Term{op: OpBvMul, sort: a.sort, args: []*Term{a, b}})
}

func (tb *TB) divop(op Op, a, b *Term) *Term {
	w := a.sort.W
	if a.sort != b.sort {
		panic("div sort mismatch")
	}
	if a.IsConst() && b.IsConst() && b.val != 0 {
		switch op {
		case OpBvUDiv:
			return tb.BV(a.val/b.val, w)
		case OpBvURem:
			return tb.BV(a.val%b.val, w)
		case OpBvSDiv:
			x, y := sext(a.val, w), sext(b.val, w)
			if y == -1 {
				return tb.BV(uint64(-x), w)
			}
			return tb.BV(uint64(x/y), w)
		case OpBvSRem:
			x, y := sext(a.val, w), sext(b.val, w)
			if y == -1 {
				return tb.BV(0, w)
			}
			return tb.BV(uint64(x%y), w)
		}
	}
	// (x * k) / k = x and (x * k) % k = 0 when x is a narrow value extended to
	// this width, so that the product cannot overflow
	if b.IsConst() && b.val != 0 && a.op == OpBvMul && a.args[1] == b && tb.narrow(a.args[0]) && b.val < 1<<20 {
		switch op {
		case OpBvSDiv, OpBvUDiv:
			if op == OpBvSDiv || a.args[0].op != OpSignExt {
				return a.args[0]
			}
		case OpBvSRem, OpBvURem:
			if op == OpBvSRem || a.args[0].op != OpSignExt {
				return tb.BV(0, w)
			}
		}
	}
	// signed division of a value with a known-zero sign bit is unsigned division
	if (op == OpBvSDiv || op == OpBvSRem) && b.IsConst() && b.val != 0 && b.val>>(uint(w)-1) == 0 && tb.leadingZeroBits(a) >= 1 {
		if op == OpBvSDiv {
			op = OpBvUDiv
		} else {
			op = OpBvURem
		}
	}
	if b.IsConst() && b.val != 0 && b.val&(b.val-1) == 0 {
		k := bits.TrailingZeros64(b.val)
		switch op {
		case OpBvUDiv:
			return tb.LShr(a, tb.BV(uint64(k), w))
		case OpBvURem:
			return tb.BvAnd(a, tb.BV(b.val-1, w))
		}
	}
	if r := tb.liftBin(a, b, func(x, y *Term) *Term { return tb.divop(op, x, y) }); r != nil && b.IsConst() && b.val != 0 {
		return r
	}
	return tb.mk(&Term{op: op, sort: a.sort, args: []*Term{a, b}})
}

// narrow reports whether a 64-bit term is a sign/zero extension of at most 32 bits.
func (tb *TB) narrow(x *Term) bool {
	if x.sort.W != 64 {
		return false
	}
	if x.op == OpSignExt && x.args[0].sort.W <= 32 {
		return true
	}
	return tb.leadingZeroBits(x) >= 32
}

func (tb *TB) UDiv(a, b *Term) *Term { return tb.divop(OpBvUDiv, a, b) }
func (tb *TB) URem(a, b *Term) *Term { return tb.divop(OpBvURem, a, b) }
func (tb *TB) SDiv(a, b *Term) *Term { return tb.divop(OpBvSDiv, a, b) }
func (tb *TB) SRem(a, b *Term) *Term { return tb.divop(OpBvSRem, a, b) }

// Shifts: b has the same width as a (callers normalise) and SMT semantics
// (shift >= width gives 0 / sign fill), which equals Go's semantics for
// unsigned counts.
func (tb *TB) Shl(a, b *Term) *Term {
	w := a.sort.W
	if b.IsConst() {
		k := b.val
		if k == 0 {
			return a
		}
		if k >= uint64(w) {
			return tb.BV(0, w)
		}
		if a.IsConst() {
			return tb.BV(a.val<<k, w)
		}
		return tb.Concat(tb.Extract(a, w-1-int(k), 0), tb.BV(0, int(k)))
	}
	if a.IsConst() && a.val == 0 {
		return a
	}
	if r := tb.liftBin(a, b, tb.Shl); r != nil {
		return r
	}
	return tb.mk(&Term{op: OpBvShl, sort: a.sort, args: []*Term{a, b}})
}

func (tb *TB) LShr(a, b *Term) *Term {
	w := a.sort.W
	if b.IsConst() {
		k := b.val
		if k == 0 {
			return a
		}
		if k >= uint64(w) {
			return tb.BV(0, w)
		}
		if a.IsConst() {
			return tb.BV(a.val>>k, w)
		}
		return tb.Concat(tb.BV(0, int(k)), tb.Extract(a, w-1, int(k)))
	}
	if a.IsConst() && a.val == 0 {
		return a
	}
	if r := tb.liftBin(a, b, tb.LShr); r != nil {
		return r
	}
	return tb.mk(&Term{op: OpBvLShr, sort: a.sort, args: []*Term{a, b}})
}

func (tb *TB) AShr(a, b *Term) *Term {
	w := a.sort.W
	if a.IsConst() && b.IsConst() {
		k := b.val
		if k >= uint64(w) {
			k = uint64(w - 1)
		}
		return tb.BV(uint64(sext(a.val, w)>>k), w)
	}
	if b.IsConst() && b.val == 0 {
		return a
	}
	if b.IsConst() && b.val < uint64(w) {
		k := int(b.val)
		return tb.SignExt(tb.Extract(a, w-1, k), w)
	}
	if r := tb.liftBin(a, b, tb.AShr); r != nil {
		return r
	}
	return tb.mk(&Term{op: OpBvAShr, sort: a.sort, args: []*Term{a, b}})
}

// leadingZeroBits returns how many top bits of t are known to be zero.
func (tb *TB) leadingZeroBits(t *Term) int {
	if t.lzb != 0 {
		return int(t.lzb) - 1
	}
	r := tb.leadingZeroBits0(t)
	t.lzb = int16(r + 1)
	return r
}

func (tb *TB) leadingZeroBits0(t *Term) int {
	switch t.op {
	case OpConst:
		if t.val == 0 {
			return t.sort.W
		}
		return t.sort.W - bits.Len64(t.val)
	case OpConcat:
		n := 0
		for _, a := range t.args {
			if a.IsConst() {
				if a.val == 0 {
					n += a.sort.W
					continue
				}
				n += a.sort.W - bits.Len64(a.val)
			}
			break
		}
		return n
	case OpIte:
		a, b := tb.leadingZeroBits(t.args[1]), tb.leadingZeroBits(t.args[2])
		if a < b {
			return a
		}
		return b
	}
	return 0
}

func (tb *TB) cmp(op Op, a, b *Term) *Term {
	w := a.sort.W
	if a.sort != b.sort {
		panic(fmt.Sprintf("cmp sort mismatch %v %v", a.sort, b.sort))
	}
	if a.IsConst() && b.IsConst() {
		switch op {
		case OpBvUlt:
			return tb.Bool(a.val < b.val)
		case OpBvUle:
			return tb.Bool(a.val <= b.val)
		case OpBvSlt:
			return tb.Bool(sext(a.val, w) < sext(b.val, w))
		default:
			return tb.Bool(sext(a.val, w) <= sext(b.val, w))
		}
	}
	if a == b {
		return tb.Bool(op == OpBvUle || op == OpBvSle)
	}
	// canonical form: a <= b  ==  not (b < a)
	if op == OpBvUle {
		return tb.Not(tb.cmp(OpBvUlt, b, a))
	}
	if op == OpBvSle {
		return tb.Not(tb.cmp(OpBvSlt, b, a))
	}
	if r := tb.liftBin(a, b, func(x, y *Term) *Term { return tb.cmp(op, x, y) }); r != nil {
		return r
	}
	// signed comparison of two values with known-zero sign bits = unsigned
	if op == OpBvSlt || op == OpBvSle {
		if tb.leadingZeroBits(a) > 0 && tb.leadingZeroBits(b) > 0 {
			if op == OpBvSlt {
				op = OpBvUlt
			} else {
				op = OpBvUle
			}
		}
	}
	if op == OpBvUlt || op == OpBvUle {
		// range-based decisions using known leading zeros
		if b.IsConst() {
			za := tb.leadingZeroBits(a)
			if za > 0 {
				maxA := mask(w - za)
				if op == OpBvUlt && maxA < b.val || op == OpBvUle && maxA <= b.val {
					return tb.True
				}
			}
			if op == OpBvUlt && b.val == 0 {
				return tb.False
			}
			if op == OpBvUle && b.val == mask(w) {
				return tb.True
			}
		}
		if a.IsConst() {
			zb := tb.leadingZeroBits(b)
			if zb > 0 {
				maxB := mask(w - zb)
				if op == OpBvUlt && a.val >= maxB || op == OpBvUle && a.val > maxB {
					return tb.False
				}
			}
			if op == OpBvUle && a.val == 0 {
				return tb.True
			}
		}
		// strip common leading zeros
		za, zb := tb.leadingZeroBits(a), tb.leadingZeroBits(b)
		z := za
		if zb < z {
			z = zb
		}
		if z > 0 && z < w {
			return tb.cmp(op, tb.Extract(a, w-1-z, 0), tb.Extract(b, w-1-z, 0))
		}
	}
	return tb.mk(&Term{op: op, sort: BoolSort, args: []*Term{a, b}})
}

func (tb *TB) Ult(a, b *Term) *Term { return tb.cmp(OpBvUlt, a, b) }
func (tb *TB) Ule(a, b *Term) *Term { return tb.cmp(OpBvUle, a, b) }
func (tb *TB) Slt(a, b *Term) *Term { return tb.cmp(OpBvSlt, a, b) }
func (tb *TB) Sle(a, b *Term) *Term { return tb.cmp(OpBvSle, a, b) }

// ---------------------------------------------------------------- floats

func fpVal(t *Term) float64 {
	if t.sort.W == 32 {
		return float64(math.Float32frombits(uint32(t.val)))
	}
	return math.Float64frombits(t.val)
}

func (tb *TB) fpOf(f float64, s Sort) *Term {
	if s.W == 32 {
		return tb.F32(float32(f))
	}
	return tb.F64(f)
}

// ---- structured floats: FpFromBits(sign const | exponent const | fraction symbolic)
// keep float code with a known exponent entirely in the bit-vector domain.

type fpS struct {
	neg  bool
	e    int   // biased exponent, 1..max-1 (normal numbers only)
	f    *Term // fraction bits
	ew   int
	fw   int
	bias int
}

func (tb *TB) fpStruct(t *Term) (fpS, bool) {
	if t.sort.K != SFP {
		return fpS{}, false
	}
	ew, fw, bias := 8, 23, 127
	if t.sort.W == 64 {
		ew, fw, bias = 11, 52, 1023
	}
	var bitsT *Term
	switch {
	case t.op == OpFpFromBits:
		bitsT = t.args[0]
	case t.op == OpConst:
		bitsT = tb.BV(t.val, t.sort.W)
	default:
		return fpS{}, false
	}
	top := tb.Extract(bitsT, t.sort.W-1, fw)
	if !top.IsConst() {
		return fpS{}, false
	}
	e := int(top.val & mask(ew))
	if e == 0 || e == int(mask(ew)) {
		return fpS{}, false
	}
	return fpS{neg: top.val>>uint(ew) != 0, e: e, f: tb.Extract(bitsT, fw-1, 0), ew: ew, fw: fw, bias: bias}, true
}

func (tb *TB) fpFromStruct(s fpS) *Term {
	hi := uint64(s.e)
	if s.neg {
		hi |= 1 << uint(s.ew)
	}
	return tb.FpFromBits(tb.Concat(tb.BV(hi, s.ew+1), s.f))
}

// pow2 reports whether the constant c is +2^k and returns k.
func (tb *TB) fpPow2(c *Term) (int, bool) {
	s, ok := tb.fpStruct(c)
	if !ok || s.neg || !s.f.IsConst() || s.f.val != 0 {
		return 0, false
	}
	return s.e - s.bias, true
}

// fpTree reports whether t is an ite tree (depth <= 6) whose leaves are
// structured floats or constants, so that FP operations can be pushed into it.
func (tb *TB) fpTree(t *Term, depth int) bool {
	if t.op == OpIte && depth < 6 {
		return tb.fpTree(t.args[1], depth+1) && tb.fpTree(t.args[2], depth+1)
	}
	if t.IsConst() {
		return true
	}
	_, ok := tb.fpStruct(t)
	return ok
}

func (tb *TB) fpMap(t *Term, f func(*Term) *Term) *Term {
	if t.op == OpIte {
		return tb.Ite(t.args[0], tb.fpMap(t.args[1], f), tb.fpMap(t.args[2], f))
	}
	return f(t)
}

func (tb *TB) FpBin(op Op, a, b *Term) *Term {
	if a.sort != b.sort {
		panic("fp sort mismatch")
	}
	if a.op == OpIte && b.IsConst() && tb.fpTree(a, 0) {
		return tb.fpMap(a, func(x *Term) *Term { return tb.FpBin(op, x, b) })
	}
	if (op == OpFpDiv || op == OpFpMul) && b.IsConst() && !a.IsConst() {
		if k, ok := tb.fpPow2(b); ok {
			if sa, ok := tb.fpStruct(a); ok {
				ne := sa.e + k
				if op == OpFpDiv {
					ne = sa.e - k
				}
				if ne >= 1 && ne < int(mask(sa.ew)) {
					sa.e = ne
					return tb.fpFromStruct(sa)
				}
			}
		}
	}
	if a.IsConst() && b.IsConst() {
		if a.sort.W == 32 {
			x, y := math.Float32frombits(uint32(a.val)), math.Float32frombits(uint32(b.val))
			var r float32
			switch op {
			case OpFpAdd:
				r = x + y
			case OpFpSub:
				r = x - y
			case OpFpMul:
				r = x * y
			case OpFpDiv:
				r = x / y
			}
			if r == r {
				return tb.F32(r)
			}
		} else {
			x, y := math.Float64frombits(a.val), math.Float64frombits(b.val)
			var r float64
			switch op {
			case OpFpAdd:
				r = x + y
			case OpFpSub:
				r = x - y
			case OpFpMul:
				r = x * y
			case OpFpDiv:
				r = x / y
			}
			if r == r {
				return tb.F64(r)
			}
		}
	}
	return tb.mk(&Term{op: op, sort: a.sort, args: []*Term{a, b}})
}

func (tb *TB) FpNeg(a *Term) *Term {
	if a.IsConst() {
		if a.sort.W == 32 {
			return tb.FPConst(a.val^(1<<31), a.sort)
		}
		return tb.FPConst(a.val^(1<<63), a.sort)
	}
	return tb.mk(&Term{op: OpFpNeg, sort: a.sort, args: []*Term{a}})
}

func (tb *TB) FpCmp(op Op, a, b *Term) *Term {
	if a.sort != b.sort {
		panic("fp sort mismatch")
	}
	if a.op == OpIte && b.IsConst() && tb.fpTree(a, 0) {
		return tb.fpMap(a, func(x *Term) *Term { return tb.FpCmp(op, x, b) })
	}
	if b.op == OpIte && a.IsConst() && tb.fpTree(b, 0) {
		return tb.fpMap(b, func(y *Term) *Term { return tb.FpCmp(op, a, y) })
	}
	if !(a.IsConst() && b.IsConst()) {
		sa, oka := tb.fpStruct(a)
		sb, okb := tb.fpStruct(b)
		// zero constants compare by sign of the other side
		if oka && b.IsConst() && fpVal(b) == 0 {
			switch op {
			case OpFpLt, OpFpLe:
				return tb.Bool(sa.neg)
			default:
				return tb.False
			}
		}
		if okb && a.IsConst() && fpVal(a) == 0 {
			switch op {
			case OpFpLt, OpFpLe:
				return tb.Bool(!sb.neg)
			default:
				return tb.False
			}
		}
		if oka && okb && !sa.neg && !sb.neg {
			if sa.e != sb.e {
				switch op {
				case OpFpLt, OpFpLe:
					return tb.Bool(sa.e < sb.e)
				default:
					return tb.False
				}
			}
			switch op {
			case OpFpLt:
				return tb.Ult(sa.f, sb.f)
			case OpFpLe:
				return tb.Ule(sa.f, sb.f)
			default:
				return tb.Eq(sa.f, sb.f)
			}
		}
	}
	if a.IsConst() && b.IsConst() {
		x, y := fpVal(a), fpVal(b)
		switch op {
		case OpFpLt:
			return tb.Bool(x < y)
		case OpFpLe:
			return tb.Bool(x <= y)
		default:
			return tb.Bool(x == y)
		}
	}
	return tb.mk(&Term{op: op, sort: BoolSort, args: []*Term{a, b}})
}

func (tb *TB) FpIsNaN(a *Term) *Term {
	if _, ok := tb.fpStruct(a); ok {
		return tb.False
	}
	if a.IsConst() {
		return tb.Bool(math.IsNaN(fpVal(a)))
	}
	return tb.mk(&Term{op: OpFpIsNaN, sort: BoolSort, args: []*Term{a}})
}

func (tb *TB) FpFromBits(b *Term) *Term {
	s := F32Sort
	if b.sort.W == 64 {
		s = F64Sort
	}
	if b.IsConst() {
		return tb.FPConst(b.val, s)
	}
	return tb.mk(&Term{op: OpFpFromBits, sort: s, args: []*Term{b}})
}

func (tb *TB) FpToFp(a *Term, s Sort) *Term {
	if a.sort == s {
		return a
	}
	if a.op == OpIte && tb.fpTree(a, 0) {
		return tb.fpMap(a, func(x *Term) *Term { return tb.FpToFp(x, s) })
	}
	if a.IsConst() {
		return tb.fpOf(fpVal(a), s)
	}
	if sa, ok := tb.fpStruct(a); ok && a.sort.W == 32 && s.W == 64 {
		// widening is exact
		return tb.fpFromStruct(fpS{neg: sa.neg, e: sa.e - 127 + 1023, f: tb.Concat(sa.f, tb.BV(0, 29)), ew: 11, fw: 52, bias: 1023})
	}
	return tb.mk(&Term{op: OpFpToFp, sort: s, args: []*Term{a}})
}

func (tb *TB) FpToBV(a *Term, w int, signed bool) *Term {
	if a.op == OpIte && tb.fpTree(a, 0) {
		return tb.fpMap(a, func(x *Term) *Term { return tb.FpToBV(x, w, signed) })
	}
	if sa, ok := tb.fpStruct(a); ok && !sa.neg && !a.IsConst() {
		p := sa.e - sa.bias
		if p < 0 {
			return tb.BV(0, w)
		}
		if p < w-1 && p <= sa.fw {
			// integer part of 1.F * 2^p, truncated toward zero
			var v *Term
			if p == 0 {
				v = tb.BV(1, 1)
			} else {
				v = tb.Concat(tb.BV(1, 1), tb.Extract(sa.f, sa.fw-1, sa.fw-p))
			}
			return tb.ZeroExt(v, w)
		}
	}
	if a.IsConst() {
		f := fpVal(a)
		if signed && f > -9.2e18 && f < 9.2e18 {
			return tb.BV(uint64(int64(f)), w)
		}
		if !signed && f >= 0 && f < 1.8e19 {
			return tb.BV(uint64(f), w)
		}
	}
	op := OpFpToUBV
	if signed {
		op = OpFpToSBV
	}
	return tb.mk(&Term{op: op, sort: BVSort(w), args: []*Term{a}, i1: w})
}

func (tb *TB) FpFromBV(a *Term, s Sort, signed bool) *Term {
	if a.IsConst() {
		if signed {
			return tb.fpOf(float64(sext(a.val, a.sort.W)), s)
		}
		if a.val < 1<<53 {
			return tb.fpOf(float64(a.val), s)
		}
	}
	op := OpFpFromUBV
	if signed {
		op = OpFpFromSBV
	}
	return tb.mk(&Term{op: op, sort: s, args: []*Term{a}})
}

func (tb *TB) FpFloor(a *Term) *Term {
	if a.op == OpIte && tb.fpTree(a, 0) {
		return tb.fpMap(a, tb.FpFloor)
	}
	if a.IsConst() {
		return tb.fpOf(math.Floor(fpVal(a)), a.sort)
	}
	if sa, ok := tb.fpStruct(a); ok && !sa.neg {
		p := sa.e - sa.bias
		if p >= sa.fw {
			return a
		}
		if p >= 0 {
			// clear the fraction bits below the binary point
			if p == 0 {
				sa.f = tb.BV(0, sa.fw)
			} else {
				sa.f = tb.Concat(tb.Extract(sa.f, sa.fw-1, sa.fw-p), tb.BV(0, sa.fw-p))
			}
			return tb.fpFromStruct(sa)
		}
		return tb.fpOf(0, a.sort)
	}
	return tb.mk(&Term{op: OpFpFloor, sort: a.sort, args: []*Term{a}})
}

// ---------------------------------------------------------------- printing

func bvLit(v uint64, w int) string {
	if w%4 == 0 {
		return fmt.Sprintf("#x%0*x", w/4, v)
	}
	return fmt.Sprintf("#b%0*b", w, v)
}

func (t *Term) ref() string {
	switch t.op {
	case OpConst:
		switch t.sort.K {
		case SBool:
			if t.val == 1 {
				return "true"
			}
			return "false"
		case SBV:
			return bvLit(t.val, t.sort.W)
		default:
			if t.sort.W == 32 {
				return fmt.Sprintf("((_ to_fp 8 24) %s)", bvLit(t.val, 32))
			}
			return fmt.Sprintf("((_ to_fp 11 53) %s)", bvLit(t.val, 64))
		}
	case OpVar:
		return t.name
	}
	return fmt.Sprintf("t%d", t.id)
}

var opNames = map[Op]string{
	OpNot: "not", OpAnd: "and", OpOr: "or", OpIte: "ite", OpEq: "=",
	OpBvAdd: "bvadd", OpBvSub: "bvsub", OpBvMul: "bvmul", OpBvUDiv: "bvudiv", OpBvURem: "bvurem",
	OpBvSDiv: "bvsdiv", OpBvSRem: "bvsrem", OpBvAnd: "bvand", OpBvOr: "bvor", OpBvXor: "bvxor",
	OpBvNot: "bvnot", OpBvNeg: "bvneg", OpBvShl: "bvshl", OpBvLShr: "bvlshr", OpBvAShr: "bvashr",
	OpBvUlt: "bvult", OpBvUle: "bvule", OpBvSlt: "bvslt", OpBvSle: "bvsle", OpConcat: "concat",
	OpFpNeg: "fp.neg", OpFpLt: "fp.lt", OpFpLe: "fp.leq", OpFpEq: "fp.eq", OpFpIsNaN: "fp.isNaN",
}

func fpParams(s Sort) string {
	if s.W == 32 {
		return "8 24"
	}
	return "11 53"
}

// body returns the SMT-LIB expression defining t in terms of its arguments' refs.
func (t *Term) body() string {
	a := func(i int) string { return t.args[i].ref() }
	switch t.op {
	case OpExtract:
		return fmt.Sprintf("((_ extract %d %d) %s)", t.i1, t.i2, a(0))
	case OpSignExt:
		return fmt.Sprintf("((_ sign_extend %d) %s)", t.i1, a(0))
	case OpFpAdd:
		return fmt.Sprintf("(fp.add RNE %s %s)", a(0), a(1))
	case OpFpSub:
		return fmt.Sprintf("(fp.sub RNE %s %s)", a(0), a(1))
	case OpFpMul:
		return fmt.Sprintf("(fp.mul RNE %s %s)", a(0), a(1))
	case OpFpDiv:
		return fmt.Sprintf("(fp.div RNE %s %s)", a(0), a(1))
	case OpFpFromBits:
		return fmt.Sprintf("((_ to_fp %s) %s)", fpParams(t.sort), a(0))
	case OpFpToFp:
		return fmt.Sprintf("((_ to_fp %s) RNE %s)", fpParams(t.sort), a(0))
	case OpFpToUBV:
		return fmt.Sprintf("((_ fp.to_ubv %d) RTZ %s)", t.i1, a(0))
	case OpFpToSBV:
		return fmt.Sprintf("((_ fp.to_sbv %d) RTZ %s)", t.i1, a(0))
	case OpFpFromUBV:
		return fmt.Sprintf("((_ to_fp_unsigned %s) RNE %s)", fpParams(t.sort), a(0))
	case OpFpFromSBV:
		return fmt.Sprintf("((_ to_fp %s) RNE %s)", fpParams(t.sort), a(0))
	case OpFpFloor:
		return fmt.Sprintf("(fp.roundToIntegral RTN %s)", a(0))
	case OpEq:
		if t.args[0].sort.K == SFP {
			// bit-identical comparison is not available for FP; Eq on FP terms
			// is only produced for identical-structure checks; use fp.eq-or-both-NaN
			return fmt.Sprintf("(= %s %s)", a(0), a(1))
		}
	}
	name, ok := opNames[t.op]
	if !ok {
		panic(fmt.Sprintf("no printer for op %d", t.op))
	}
	var sb strings.Builder
	sb.WriteString("(")
	sb.WriteString(name)
	for i := range t.args {
		sb.WriteString(" ")
		sb.WriteString(a(i))
	}
	sb.WriteString(")")
	return sb.String()
}

// ---------------------------------------------------------------- ranges

type ubounds struct{ lo, hi uint64 }

// boundsOf returns conservative unsigned bounds of a BV term whose value is
// known to stay below 2^63 (ok=false when nothing useful is known).
func (tb *TB) boundsOf(t *Term) (ubounds, bool) {
	if t.bst != 0 {
		return t.bnd, t.bst == 1
	}
	b, ok := tb.boundsOf0(t)
	t.bnd = b
	if ok {
		t.bst = 1
	} else {
		t.bst = 2
	}
	return b, ok
}

func (tb *TB) boundsOf0(t *Term) (ubounds, bool) {
	const lim = uint64(1) << 62
	switch t.op {
	case OpConst:
		if t.val >= lim {
			return ubounds{}, false
		}
		return ubounds{t.val, t.val}, true
	case OpIte:
		a, ok1 := tb.boundsOf(t.args[1])
		b, ok2 := tb.boundsOf(t.args[2])
		if !ok1 || !ok2 {
			return ubounds{}, false
		}
		if b.lo < a.lo {
			a.lo = b.lo
		}
		if b.hi > a.hi {
			a.hi = b.hi
		}
		return a, true
	case OpBvAdd:
		a, ok1 := tb.boundsOf(t.args[0])
		if !ok1 {
			return ubounds{}, false
		}
		if t.args[1].IsConst() && t.args[1].val >= lim {
			// subtraction of a constant
			k := -t.args[1].val & mask(t.sort.W)
			if t.sort.W < 64 {
				k = (uint64(1) << uint(t.sort.W)) - t.args[1].val
			}
			if a.lo >= k {
				return ubounds{a.lo - k, a.hi - k}, true
			}
			return ubounds{}, false
		}
		b, ok2 := tb.boundsOf(t.args[1])
		if !ok2 || a.hi+b.hi >= lim {
			return ubounds{}, false
		}
		if t.sort.W < 64 && a.hi+b.hi > mask(t.sort.W) {
			return ubounds{}, false
		}
		return ubounds{a.lo + b.lo, a.hi + b.hi}, true
	case OpBvMul:
		a, ok1 := tb.boundsOf(t.args[0])
		b, ok2 := tb.boundsOf(t.args[1])
		if ok1 && ok2 && (a.hi == 0 || b.hi < lim/a.hi) && (t.sort.W == 64 || a.hi*b.hi <= mask(t.sort.W)) {
			return ubounds{a.lo * b.lo, a.hi * b.hi}, true
		}
		return ubounds{}, false
	case OpConcat:
		// constant low part contributes to both bounds
		lz := tb.leadingZeroBits(t)
		if lz == 0 {
			return ubounds{}, false
		}
		hi := mask(t.sort.W - lz)
		if hi >= lim {
			return ubounds{}, false
		}
		// refine with known constant segments
		var lo, mx uint64
		pos := t.sort.W
		for _, a := range t.args {
			pos -= a.sort.W
			if a.IsConst() {
				lo |= a.val << uint(pos)
				mx |= a.val << uint(pos)
			} else {
				mx |= mask(a.sort.W) << uint(pos)
			}
		}
		return ubounds{lo, mx}, true
	}
	lz := tb.leadingZeroBits(t)
	if lz > 0 && t.sort.W-lz < 62 {
		return ubounds{0, mask(t.sort.W - lz)}, true
	}
	if t.sort.W < 62 && t.sort.K == SBV {
		return ubounds{0, mask(t.sort.W)}, true
	}
	return ubounds{}, false
}
