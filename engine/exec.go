package main

// The symbolic executor: per-function worklist over basic blocks with state
// merging at control-flow joins (CBMC style), dynamic loop unrolling with
// solver feasibility checks on back edges.

import (
	"fmt"
	"go/token"
	"go/types"
	"os"
	"sort"
	"strings"
	"sync/atomic"
	"time"

	"golang.org/x/tools/go/ssa"
)

type VC struct {
	Kind    string // panic, assert, unwind, alloc, footprint, reach
	Site    string
	Result  string // unsat, sat, unknown
	Model   []uint64
	Known   string // id of known finding when matched
	Harness string
}

type knownPred struct {
	id   string
	site string
	pred *Term
}

type nondet struct {
	t    *Term
	kind string
}

type Exec struct {
	tb      *TB
	solver  *Solver
	prog    *ssa.Program
	pkg     *ssa.Package
	sizes   types.Sizes
	nextObj int
	fninfo  map[*ssa.Function]*FnInfo
	globals map[*ssa.Global]int

	Kunwind int
	Kalloc  int
	Kgrow   int
	MaxDepth int

	nondets []nondet
	known   []knownPred
	knownOK map[string]bool // ids listed in known_findings.json

	vcs        []*VC
	violations []*VC
	knownSeen  []*VC
	undecided  []*VC
	reached    map[string]bool
	reachModel map[string][]uint64
	observes   []observe

	footprint    bool
	globalStores int
	frozenAt     int

	// stats
	nInstr     int
	nStates    int
	nMerges    int
	nVCunsat   int
	nVCconst   int
	nVCsubsumed int
	proved     map[int][][]int // bad-term id -> path conditions (conjunct ids) under which it was proved impossible
	funcsSeen  map[string]bool
	stubsSeen  map[string]bool
	depth      int
	curFn      []*ssa.Function
	harness    string
	unwound    map[string]int
	maxUnwind  int
	feasCache  map[int]string
	tightCache map[[2]int]int

	primaryMs       int
	vcTimeout       time.Duration
	noPortfolio     bool
	pstats          PortfolioStats
	restrictions    int
	feasBranches    bool
	feasMs          int
	nPruned         int
	fmtCallsMethods bool
	inFmt           int
	fmtRecovered    int
}

type observe struct {
	name  string
	v     []*Term
	pc    *Term
	bytes bool
}

type FnInfo struct {
	order   map[*ssa.BasicBlock]int
	loops   map[*ssa.BasicBlock]map[*ssa.BasicBlock]bool
	headers []*ssa.BasicBlock
}

const exitOrder = 1 << 30

var debugVC = os.Getenv("VP_DEBUGVC") != ""

func (ex *Exec) info(fn *ssa.Function) *FnInfo {
	if fi, ok := ex.fninfo[fn]; ok {
		return fi
	}
	fi := &FnInfo{order: map[*ssa.BasicBlock]int{}, loops: map[*ssa.BasicBlock]map[*ssa.BasicBlock]bool{}}
	// natural loops
	for _, b := range fn.Blocks {
		for _, s := range b.Succs {
			if s.Dominates(b) {
				body := fi.loops[s]
				if body == nil {
					body = map[*ssa.BasicBlock]bool{s: true}
					fi.loops[s] = body
					fi.headers = append(fi.headers, s)
				}
				// walk predecessors from b up to s
				stack := []*ssa.BasicBlock{b}
				for len(stack) > 0 {
					x := stack[len(stack)-1]
					stack = stack[:len(stack)-1]
					if body[x] {
						continue
					}
					body[x] = true
					stack = append(stack, x.Preds...)
				}
			}
		}
	}
	inLoops := func(b *ssa.BasicBlock) int {
		n := 0
		for _, body := range fi.loops {
			if body[b] {
				n++
			}
		}
		return n
	}
	// loop-aware reverse postorder: successors leaving more loops first
	visited := map[*ssa.BasicBlock]bool{}
	var post []*ssa.BasicBlock
	var dfs func(b *ssa.BasicBlock)
	dfs = func(b *ssa.BasicBlock) {
		visited[b] = true
		succs := append([]*ssa.BasicBlock(nil), b.Succs...)
		common := func(s *ssa.BasicBlock) int {
			n := 0
			for _, body := range fi.loops {
				if body[b] && body[s] {
					n++
				}
			}
			return n
		}
		sort.SliceStable(succs, func(i, j int) bool { return common(succs[i]) < common(succs[j]) })
		for _, s := range succs {
			if visited[s] || s.Dominates(b) {
				continue
			}
			dfs(s)
		}
		post = append(post, b)
	}
	if len(fn.Blocks) > 0 {
		dfs(fn.Blocks[0])
	}
	_ = inLoops
	for i := len(post) - 1; i >= 0; i-- {
		fi.order[post[i]] = len(post) - 1 - i
	}
	sort.Slice(fi.headers, func(i, j int) bool { return fi.order[fi.headers[i]] > fi.order[fi.headers[j]] })
	ex.fninfo[fn] = fi
	return fi
}

func (ex *Exec) site(in ssa.Instruction) string {
	fn := in.Parent()
	pos := in.Pos()
	loc := ""
	if pos != token.NoPos {
		p := ex.prog.Fset.Position(pos)
		f := p.Filename
		if i := strings.LastIndex(f, "/"); i >= 0 {
			f = f[i+1:]
		}
		loc = fmt.Sprintf("%s:%d", f, p.Line)
	}
	st := ""
	for i := len(ex.curFn) - 2; i >= 0 && i >= len(ex.curFn)-6; i-- {
		f := ex.curFn[i]
		if f.Pkg == ex.pkg && !strings.HasPrefix(f.Name(), "Vp") && !strings.HasPrefix(f.Name(), "vp") {
			st += " <- " + f.String()
		}
	}
	return fn.String() + "@" + loc + st
}

// ---------------------------------------------------------------- VCs

// vc checks whether `bad` is feasible on the current path. If it is, a
// violation (or known finding) is recorded. Execution continues under ¬bad.
func (ex *Exec) vc(st *State, kind, site string, bad *Term) {
	bad = ex.simp(st, bad)
	if bad.IsFalse() {
		ex.nVCconst++
		return
	}
	if ex.inFmt > 0 && kind == "panic" {
		// panics inside String/Error methods called by fmt are recovered by fmt
		ex.fmtRecovered++
		ex.restrictions++
		ex.assume(st, ex.tb.Not(bad))
		return
	}
	var kn []knownPred
	for _, k := range ex.known {
		if strings.Contains(site, k.site) && ex.knownOK[k.id] {
			kn = append(kn, k)
		}
	}
	if len(kn) == 0 && ex.subsumed(st, bad) {
		// the same condition was proved impossible under a subset of the
		// current path condition (e.g. the nil check of a pointer that has
		// already been dereferenced on this path)
		ex.nVCsubsumed++
		return
	}
	v := &VC{Kind: kind, Site: site, Harness: ex.harness}
	ex.vcs = append(ex.vcs, v)
	if debugVC {
		fmt.Printf("VC %s %s\n", kind, site)
	}
	pc := ex.pcTerm(st)
	// exclude known-finding inputs first: anything outside them is a violation
	conj := []*Term{pc, bad}
	for _, k := range kn {
		conj = append(conj, ex.tb.Not(k.pred))
	}
	r, mdl := ex.decide(conj...)
	v.Result = r
	switch r {
	case "unsat":
		ex.nVCunsat++
		if len(kn) == 0 {
			ex.recordProved(st, bad)
		}
	case "sat":
		v.Model = mdl
		ex.violations = append(ex.violations, v)
	default:
		ex.undecided = append(ex.undecided, v)
	}
	for _, k := range kn {
		r2, mdl2 := ex.decide(pc, bad, k.pred)
		if r2 == "sat" {
			kv := &VC{Kind: kind, Site: site, Result: "sat", Known: k.id, Harness: ex.harness, Model: mdl2}
			ex.knownSeen = append(ex.knownSeen, kv)
		} else if r2 != "unsat" {
			ex.undecided = append(ex.undecided, &VC{Kind: kind, Site: site + " [known " + k.id + "]", Result: r2, Harness: ex.harness})
		}
	}
	if r != "unsat" || len(kn) > 0 {
		ex.restrictions++
		ex.assume(st, ex.tb.Not(bad))
	}
}

func (ex *Exec) recordProved(st *State, bad *Term) {
	if ex.proved == nil {
		ex.proved = map[int][][]int{}
	}
	ids := make([]int, len(st.pc))
	for i, c := range st.pc {
		ids[i] = c.id
	}
	l := ex.proved[bad.id]
	if len(l) >= 8 {
		l = l[1:]
	}
	ex.proved[bad.id] = append(l, ids)
}

func (ex *Exec) subsumed(st *State, bad *Term) bool {
	l := ex.proved[bad.id]
	if len(l) == 0 {
		return false
	}
	cur := make(map[int]bool, len(st.pc))
	for _, c := range st.pc {
		cur[c.id] = true
	}
next:
	for _, ids := range l {
		for _, id := range ids {
			if !cur[id] {
				continue next
			}
		}
		return true
	}
	return false
}

// decide answers a verification query: the incremental primary solver gets a
// short budget, then a portfolio of one-shot solvers gets the full budget.
func (ex *Exec) decide(conj ...*Term) (string, []uint64) {
	r := ex.solver.CheckQuick(ex.primaryMs, conj...)
	if r == "sat" {
		return r, ex.model()
	}
	if r == "unsat" {
		return r, nil
	}
	if ex.noPortfolio {
		return r, nil
	}
	vars := make([]*Term, len(ex.nondets))
	for i, n := range ex.nondets {
		vars[i] = n.t
	}
	res, vals, _ := Portfolio(conj, vars, ex.vcTimeout, &ex.pstats)
	return res, vals
}

func (ex *Exec) model() []uint64 {
	ts := make([]*Term, len(ex.nondets))
	for i, n := range ex.nondets {
		ts[i] = n.t
	}
	vals, ok := ex.solver.Values(ts)
	if !ok {
		return nil
	}
	return vals
}

// reach records that a named point is reachable (vacuity guard).
func (ex *Exec) reach(st *State, name string) {
	if ex.reached[name] {
		return
	}
	if debugVC {
		fmt.Printf("REACH %s pc=%d conj restrictions=%d\n", name, len(st.pc), ex.restrictions)
		for _, c := range st.pc {
			fmt.Printf("    conj t%d op=%d nargs=%d\n", c.id, c.op, len(c.args))
		}
	}
	r, m := ex.decide(ex.pcTerm(st))
	if r == "sat" {
		ex.reached[name] = true
		if m != nil {
			ex.reachModel[name] = m
		}
	}
}

// ---------------------------------------------------------------- states

func (ex *Exec) newState() *State {
	return &State{facts: map[int]int8{}, eqc: map[int]*Term{}, heap: map[int]*Object{}, regs: map[interface{}]Value{}, alloc: ex.tb.BV(0, 64)}
}

// mergeStates merges b into a (both arriving at the same program point).
func (ex *Exec) mergeStates(a, b *State) *State {
	ex.nMerges++
	if debugVC {
		tt := len(ex.tb.terms)
		defer func() {
			if d := len(ex.tb.terms) - tt; d > 3000 {
				fmt.Printf("BIGMERGE created %d terms (heap %d/%d regs %d/%d)\n", d, len(a.heap), len(b.heap), len(a.regs), len(b.regs))
			}
		}()
	}
	tb := ex.tb
	// common pc prefix
	k := 0
	for k < len(a.pc) && k < len(b.pc) && a.pc[k] == b.pc[k] {
		k++
	}
	sa := tb.And(a.pc[k:]...)
	sb := tb.And(b.pc[k:]...)
	g := sa
	if len(a.pc) == k {
		// a's condition is weaker; select b by its own suffix
		g = tb.Not(sb)
	}
	r := &State{alloc: ex.merge(g, a.alloc, b.alloc).(*Term)}
	r.pc = append(append([]*Term(nil), a.pc[:k]...), tb.Or(sa, sb))
	if r.pc[len(r.pc)-1].IsTrue() {
		r.pc = r.pc[:len(r.pc)-1]
	}
	ex.rebuildFacts(r)
	// heap
	r.heap = make(map[int]*Object, len(a.heap)+len(b.heap))
	for id, oa := range a.heap {
		if ob, ok := b.heap[id]; ok && ob != oa {
			n := *oa
			n.v = ex.merge(g, oa.v, ob.v)
			n.frozen = oa.frozen || ob.frozen
			if len(ob.allow) > 0 {
				// write permissions granted on either path stay granted
				n.allow = append(append([][]PathEl(nil), oa.allow...), ob.allow...)
			}
			r.heap[id] = &n
		} else {
			r.heap[id] = oa
		}
	}
	for id, ob := range b.heap {
		if _, ok := a.heap[id]; !ok {
			r.heap[id] = ob
		}
	}
	// registers
	r.regs = make(map[interface{}]Value, len(a.regs)+len(b.regs))
	for key, va := range a.regs {
		if vb, ok := b.regs[key]; ok {
			if va == vb {
				r.regs[key] = va
			} else {
				r.regs[key] = ex.merge(g, va, vb)
			}
		} else {
			r.regs[key] = va
		}
	}
	for key, vb := range b.regs {
		if _, ok := a.regs[key]; !ok {
			r.regs[key] = vb
		}
	}
	if a.ret != nil || b.ret != nil {
		r.ret = ex.merge(g, a.ret, b.ret)
	}
	return r
}

// ---------------------------------------------------------------- frames

type frame struct {
	fn       *ssa.Function
	fi       *FnInfo
	pending  map[*ssa.BasicBlock]*State
	deferred map[*ssa.BasicBlock]*State
	exit     *State
	iters    map[*ssa.BasicBlock]int
	constHdr map[*ssa.BasicBlock]bool
	unknownIters map[*ssa.BasicBlock]int
}

func (fr *frame) addPending(ex *Exec, m map[*ssa.BasicBlock]*State, b *ssa.BasicBlock, s *State) {
	if old, ok := m[b]; ok {
		m[b] = ex.mergeStates(old, s)
	} else {
		m[b] = s
	}
}

// flow moves state s along the edge from -> to.
func (ex *Exec) flow(fr *frame, s *State, from, to *ssa.BasicBlock) {
	// evaluate phis of `to` for this edge (parallel assignment)
	idx := -1
	for i, p := range to.Preds {
		if p == from {
			idx = i
			break
		}
	}
	var phis []*ssa.Phi
	var vals []Value
	for _, in := range to.Instrs {
		phi, ok := in.(*ssa.Phi)
		if !ok {
			break
		}
		phis = append(phis, phi)
		vals = append(vals, ex.val(s, phi.Edges[idx]))
	}
	for i, phi := range phis {
		s.setReg(phi, vals[i])
	}
	if to.Dominates(from) {
		// back edge: prune infeasible paths, count iterations
		if debugVC {
			fmt.Printf("BACKEDGE %s b%d pc=%d conj\n", fr.fn.Name(), to.Index, len(s.pc))
			for _, c := range s.pc {
				fmt.Printf("    conj t%d op=%d nargs=%d\n", c.id, c.op, len(c.args))
			}
		}
		if !fr.constHdr[to] {
			r := ex.feasible(s)
			if r == "unsat" {
				return
			}
			if r == "unknown" {
				// the solver cannot decide whether the loop continues: give up
				// on this loop after a few rounds instead of unrolling blindly
				fr.unknownIters[to]++
				if fr.unknownIters[to] > 6 {
					ex.restrictions++
					v := &VC{Kind: "unwind", Site: fmt.Sprintf("%s loop at block %d: continuation undecided by the solver", fr.fn.String(), to.Index), Result: "unknown", Harness: ex.harness}
					ex.vcs = append(ex.vcs, v)
					ex.undecided = append(ex.undecided, v)
					return
				}
			}
		}
		fr.addPending(ex, fr.deferred, to, s)
		return
	}
	fr.addPending(ex, fr.pending, to, s)
}

// inHarnessCode reports whether fn is part of the harness (Vp*/vp* functions
// and their closures): branches there encode the property itself, so pruning
// them eagerly would turn every branch into a proof obligation.
func (ex *Exec) inHarnessCode(fn *ssa.Function) bool {
	for fn.Parent() != nil {
		fn = fn.Parent()
	}
	n := fn.Name()
	return fn.Pkg == ex.pkg && (strings.HasPrefix(n, "Vp") || strings.HasPrefix(n, "vp"))
}

func (ex *Exec) feasible(s *State) string {
	pc := ex.pcTerm(s)
	if pc.IsTrue() {
		return "sat"
	}
	if pc.IsFalse() {
		return "unsat"
	}
	if r, ok := ex.feasCache[pc.id]; ok {
		return r
	}
	r := ex.solver.CheckQuick(ex.feasMs, pc)
	ex.feasCache[pc.id] = r
	return r
}

// callFunction executes fn on st (mutating st to the post-state) and returns
// the result value. ok=false when no path returns.
func (ex *Exec) callFunction(st *State, fn *ssa.Function, args []Value, bind []Value) (Value, bool) {
	if fn.Blocks == nil {
		unsup("call to function without body: %s", fn.String())
	}
	if ex.depth > ex.MaxDepth {
		unsup("call depth exceeded at %s", fn.String())
	}
	ex.depth++
	ex.curFn = append(ex.curFn, fn)
	t0terms := len(ex.tb.terms)
	defer func() {
		ex.depth--
		ex.curFn = ex.curFn[:len(ex.curFn)-1]
		if debugVC {
			if d := len(ex.tb.terms) - t0terms; d > 20000 {
				fmt.Printf("TERMS %s created %d (total %d)\n", fn.String(), d, len(ex.tb.terms))
			}
		}
	}()
	ex.funcsSeen[fn.String()] = true
	fi := ex.info(fn)
	fr := &frame{fn: fn, fi: fi, pending: map[*ssa.BasicBlock]*State{}, deferred: map[*ssa.BasicBlock]*State{}, iters: map[*ssa.BasicBlock]int{}, constHdr: map[*ssa.BasicBlock]bool{}, unknownIters: map[*ssa.BasicBlock]int{}}
	entry := &State{pc: st.pc[:len(st.pc):len(st.pc)], facts: st.facts, eqc: st.eqc, factsShare: true, heap: st.heap, heapShare: true, regs: map[interface{}]Value{}, alloc: st.alloc}
	st.factsShare, st.heapShare = true, true
	for i, p := range fn.Params {
		entry.regs[p] = args[i]
	}
	for i, fv := range fn.FreeVars {
		entry.regs[fv] = bind[i]
	}
	ex.nStates++
	r0 := ex.restrictions
	entryPC := st.pc
	fr.pending[fn.Blocks[0]] = entry
	for {
		// pick the minimum-order pending block
		var blk *ssa.BasicBlock
		for b := range fr.pending {
			if blk == nil || fi.order[b] < fi.order[blk] {
				blk = b
			}
		}
		// release a deferred loop header whose loop has no pending work
		released := false
		for _, h := range fi.headers {
			ds, ok := fr.deferred[h]
			if !ok {
				continue
			}
			if blk != nil && (fi.order[blk] < fi.order[h] || fi.loops[h][blk]) {
				continue
			}
			delete(fr.deferred, h)
			fr.iters[h]++
			key := fn.String() + "#" + fmt.Sprint(h.Index)
			if fr.iters[h] > ex.unwound[key] {
				ex.unwound[key] = fr.iters[h]
			}
			if fr.iters[h] > ex.maxUnwind {
				ex.maxUnwind = fr.iters[h]
			}
			if fr.iters[h] > ex.Kunwind {
				ex.restrictions++
				v := &VC{Kind: "unwind", Site: fmt.Sprintf("%s loop at block %d exceeds unwinding bound %d", fn.String(), h.Index, ex.Kunwind), Result: "unknown", Harness: ex.harness}
				ex.vcs = append(ex.vcs, v)
				// an input that drives the loop past the bound is a candidate
				// hang: it is reported only if the native run does not finish
				// (otherwise the bound was too small and the case is undecided)
				if r, mdl := ex.decide(ex.pcTerm(ds)); r == "sat" {
					v.Result = "sat"
					v.Model = mdl
					ex.violations = append(ex.violations, v)
				} else {
					ex.undecided = append(ex.undecided, v)
				}
				released = true
				break
			}
			fr.addPending(ex, fr.pending, h, ds)
			released = true
			break
		}
		if released {
			continue
		}
		if blk == nil {
			break
		}
		s := fr.pending[blk]
		delete(fr.pending, blk)
		ex.runBlock(fr, s, blk)
	}
	if fr.exit == nil {
		st.dead = true
		ex.restrictions++
		return nil, false
	}
	e := fr.exit
	if ex.restrictions == r0 && len(e.pc) != len(entryPC) {
		// every path through the callee returned and nothing restricted the
		// inputs: the disjunction of all path conditions is the entry condition
		e.pc = entryPC[:len(entryPC):len(entryPC)]
		ex.rebuildFacts(e)
	}
	st.pc, st.facts, st.eqc, st.factsShare = e.pc, e.facts, e.eqc, true
	e.factsShare = true
	st.heap, st.heapShare = e.heap, true
	st.alloc = e.alloc
	return e.ret, true
}

// cancelAll is set when another case has found a violation (fail fast).
var cancelAll atomic.Bool

func (ex *Exec) runBlock(fr *frame, s *State, b *ssa.BasicBlock) {
	ex.nStates++
	if cancelAll.Load() && len(ex.violations) == 0 {
		panic(unsupported{"cancelled: another case already found a violation"})
	}
	if debugVC {
		fmt.Printf("BLOCK %s b%d (%s) terms=%d heap=%d pc=%d\n", fr.fn.Name(), b.Index, b.Comment, len(ex.tb.terms), len(s.heap), len(s.pc))
	}
	for _, in := range b.Instrs {
		if _, ok := in.(*ssa.Phi); ok {
			continue
		}
		ex.nInstr++
		switch t := in.(type) {
		case *ssa.Jump:
			ex.flow(fr, s, b, b.Succs[0])
			return
		case *ssa.If:
			c := ex.simp(s, ex.val(s, t.Cond).(*Term))
			if fr.fi.loops[b] != nil {
				fr.constHdr[b] = c.IsConst()
			}
			if c.IsTrue() {
				ex.flow(fr, s, b, b.Succs[0])
				return
			}
			if c.IsFalse() {
				ex.flow(fr, s, b, b.Succs[1])
				return
			}
			if ex.feasBranches && !ex.inHarnessCode(fr.fn) {
				// prune infeasible sides eagerly: keeps merged states free of
				// garbage from paths no input can take
				pc := ex.pcTerm(s)
				if ex.solver.CheckQuick(ex.feasMs, pc, c) == "unsat" {
					ex.nPruned++
					ex.flow(fr, s, b, b.Succs[1])
					return
				}
				if ex.solver.CheckQuick(ex.feasMs, pc, ex.tb.Not(c)) == "unsat" {
					ex.nPruned++
					ex.flow(fr, s, b, b.Succs[0])
					return
				}
			}
			s2 := s.clone()
			if ex.assume(s, c) {
				ex.flow(fr, s, b, b.Succs[0])
			}
			if ex.assume(s2, ex.tb.Not(c)) {
				ex.flow(fr, s2, b, b.Succs[1])
			}
			return
		case *ssa.Return:
			switch len(t.Results) {
			case 0:
				s.ret = &TupleV{}
			case 1:
				s.ret = ex.val(s, t.Results[0])
			default:
				tv := &TupleV{v: make([]Value, len(t.Results))}
				for i, r := range t.Results {
					tv.v[i] = ex.val(s, r)
				}
				s.ret = tv
			}
			s.regs = nil
			s.regsShare = true
			if fr.exit == nil {
				fr.exit = s
			} else {
				s.regs = map[interface{}]Value{}
				fr.exit.regs = map[interface{}]Value{}
				fr.exit = ex.mergeStates(fr.exit, s)
			}
			return
		case *ssa.Panic:
			ex.vc(s, "panic", ex.site(in)+": explicit panic", ex.tb.True)
			return
		default:
			tt := len(ex.tb.terms)
			ex.instr(s, in)
			if debugVC && len(ex.tb.terms)-tt > 3000 {
				fmt.Printf("BIGINSTR %s: %s created %d\n", ex.site(in), in.String(), len(ex.tb.terms)-tt)
			}
			if s.dead {
				return
			}
		}
	}
}

// ---------------------------------------------------------------- operands

func (ex *Exec) val(s *State, v ssa.Value) Value {
	switch x := v.(type) {
	case *ssa.Const:
		return ex.constVal(s, x)
	case *ssa.Global:
		return ex.ptrTo(ex.globalObj(s, x))
	case *ssa.Function:
		return &ClosureV{fn: x}
	case *ssa.Builtin:
		unsup("builtin %s as value", x.Name())
	}
	r, ok := s.regs[v]
	if !ok {
		unsup("undefined register %s in %s", v.Name(), ex.curFn[len(ex.curFn)-1])
	}
	return r
}

func (ex *Exec) globalObj(s *State, g *ssa.Global) int {
	id, ok := ex.globals[g]
	if !ok {
		ex.nextObj++
		id = ex.nextObj
		ex.globals[g] = id
	}
	if _, ok := s.heap[id]; !ok {
		t := g.Type().(*types.Pointer).Elem()
		s.ownHeap()
		s.heap[id] = &Object{typ: t, v: ex.zero(t), name: g.String(), global: true}
	}
	return id
}
