package main

// Symbolic values of Go types.

import (
	"fmt"
	"go/types"

	"golang.org/x/tools/go/ssa"
)

type Value interface{}

type PathEl struct {
	idx *Term // array index (64-bit) when non-nil
	fld int   // struct field index otherwise
}

type PAlt struct {
	g    *Term
	obj  int // 0 = nil pointer
	path []PathEl
}

// PtrV is a guarded pointer. Alternatives have PRIORITY semantics: the value
// is the first alternative whose guard holds (the alternatives are exhaustive
// by construction). eff() yields the equivalent mutually exclusive guards.
type PtrV struct {
	alts []PAlt
	effc []PAlt
}

type SAlt struct {
	g   *Term
	obj int // 0 = nil base
	off *Term
	cp  *Term // capacity of this alternative (nil: the slice's cp)
}

func (s *SliceV) altCap(a SAlt) *Term {
	if a.cp != nil {
		return a.cp
	}
	return s.cp
}

// SliceV models slices and strings (str=true). Opaque strings have no alts.
type SliceV struct {
	alts   []SAlt
	ln, cp *Term
	str    bool
	opaque bool
}

type IAlt struct {
	g   *Term
	typ types.Type // nil = nil interface
	v   Value
}

type IfaceV struct{ alts []IAlt }

type StructV struct{ f []Value }
// ArrayV holds materialised cells plus a log of guarded stores at symbolic
// indices that is folded in on reads. States that diverge share the base cells
// and the log prefix, so merging them costs only the new events.
type wevent struct {
	g    *Term
	idx  *Term
	rest []PathEl
	val  Value
}

type ArrayV struct {
	e   []Value
	log []wevent
	// acc marks the backing array of an append accumulator: cells at index >=
	// accBase were never part of any slice when the array was allocated, so
	// whenever such a cell is read inside a slice's length it was written by
	// a logged append; the zero base value of those cells is unreachable.
	acc     bool
	accBase int
}
type TupleV struct{ v []Value }

type ClosureV struct {
	fn   *ssa.Function // nil = nil func
	bind []Value
	// bound method closures / builtin wrappers
	native func(ex *Exec, st *State, args []Value) Value
}

type MapEntry struct {
	k Value
	v Value
}
type MapV struct {
	isNil   bool
	entries []MapEntry
}

type unsupported struct{ msg string }

func unsup(format string, a ...interface{}) {
	panic(unsupported{fmt.Sprintf(format, a...)})
}

func samePath(a, b []PathEl) bool {
	if len(a) != len(b) {
		return false
	}
	for i := range a {
		if a[i].idx != b[i].idx || a[i].fld != b[i].fld {
			return false
		}
	}
	return true
}

// eff returns the alternatives of p with mutually exclusive guards.
func (ex *Exec) eff(p *PtrV) []PAlt {
	if len(p.alts) <= 1 {
		return p.alts
	}
	if p.effc != nil {
		return p.effc
	}
	tb := ex.tb
	out := make([]PAlt, 0, len(p.alts))
	prev := tb.False
	for _, a := range p.alts {
		e := tb.And(a.g, tb.Not(prev))
		if !e.IsFalse() {
			out = append(out, PAlt{g: e, obj: a.obj, path: a.path})
		}
		prev = tb.Or(prev, a.g)
		if prev.IsTrue() {
			break
		}
	}
	p.effc = out
	return out
}

func (ex *Exec) nilPtr() *PtrV { return &PtrV{alts: []PAlt{{g: ex.tb.True}}} }

func (ex *Exec) ptrTo(obj int, path ...PathEl) *PtrV {
	return &PtrV{alts: []PAlt{{g: ex.tb.True, obj: obj, path: path}}}
}

func (ex *Exec) nilSlice(str bool) *SliceV {
	z := ex.tb.BV(0, 64)
	return &SliceV{alts: []SAlt{{g: ex.tb.True, obj: 0, off: z}}, ln: z, cp: z, str: str}
}

func (ex *Exec) nilIface() *IfaceV { return &IfaceV{alts: []IAlt{{g: ex.tb.True}}} }

func (ex *Exec) mkIface(t types.Type, v Value) *IfaceV {
	return &IfaceV{alts: []IAlt{{g: ex.tb.True, typ: t, v: v}}}
}

// zero returns the zero value of type t.
func (ex *Exec) zero(t types.Type) Value {
	tb := ex.tb
	switch u := t.Underlying().(type) {
	case *types.Basic:
		switch {
		case u.Info()&types.IsBoolean != 0:
			return tb.False
		case u.Info()&types.IsInteger != 0:
			return tb.BV(0, ex.intWidth(u))
		case u.Info()&types.IsFloat != 0:
			if u.Kind() == types.Float32 {
				return tb.F32(0)
			}
			return tb.F64(0)
		case u.Info()&types.IsString != 0:
			return ex.nilSlice(true)
		case u.Kind() == types.UnsafePointer:
			return ex.nilPtr()
		}
	case *types.Pointer:
		return ex.nilPtr()
	case *types.Slice:
		return ex.nilSlice(false)
	case *types.Interface:
		return ex.nilIface()
	case *types.Struct:
		f := make([]Value, u.NumFields())
		for i := range f {
			f[i] = ex.zero(u.Field(i).Type())
		}
		return &StructV{f: f}
	case *types.Array:
		n := int(u.Len())
		e := make([]Value, n)
		if n > 0 {
			z := ex.zero(u.Elem())
			for i := range e {
				e[i] = z
			}
		}
		return &ArrayV{e: e}
	case *types.Map:
		return &MapV{isNil: true}
	case *types.Signature:
		return &ClosureV{}
	case *types.Tuple:
		v := make([]Value, u.Len())
		for i := range v {
			v[i] = ex.zero(u.At(i).Type())
		}
		return &TupleV{v: v}
	}
	unsup("zero value of %v", t)
	return nil
}

func (ex *Exec) intWidth(b *types.Basic) int {
	switch b.Kind() {
	case types.Int8, types.Uint8:
		return 8
	case types.Int16, types.Uint16:
		return 16
	case types.Int32, types.Uint32:
		return 32
	case types.UntypedRune:
		return 32
	default:
		return 64
	}
}

func isSigned(t types.Type) bool {
	b, ok := t.Underlying().(*types.Basic)
	return ok && b.Info()&types.IsInteger != 0 && b.Info()&types.IsUnsigned == 0
}

func isInt(t types.Type) bool {
	b, ok := t.Underlying().(*types.Basic)
	return ok && b.Info()&types.IsInteger != 0
}

func isFloat(t types.Type) bool {
	b, ok := t.Underlying().(*types.Basic)
	return ok && b.Info()&types.IsFloat != 0
}

func isString(t types.Type) bool {
	b, ok := t.Underlying().(*types.Basic)
	return ok && b.Info()&types.IsString != 0
}

func isBool(t types.Type) bool {
	b, ok := t.Underlying().(*types.Basic)
	return ok && b.Info()&types.IsBoolean != 0
}

// merge returns ite(g, a, b) on values.
func (ex *Exec) merge(g *Term, a, b Value) Value {
	if g.IsTrue() {
		return a
	}
	if g.IsFalse() {
		return b
	}
	if a == nil {
		return b
	}
	if b == nil {
		return a
	}
	tb := ex.tb
	switch x := a.(type) {
	case *Term:
		y, ok := b.(*Term)
		if !ok {
			unsup("merge term with %T", b)
		}
		if x == y {
			return x
		}
		return tb.Ite(g, x, y)
	case *PtrV:
		y := b.(*PtrV)
		if x == y {
			return x
		}
		if len(x.alts) == 1 && len(y.alts) == 1 && x.alts[0].obj == y.alts[0].obj && samePath(x.alts[0].path, y.alts[0].path) {
			return x
		}
		// strip the common suffix (structural sharing of guarded updates)
		nx, ny := len(x.alts), len(y.alts)
		k := 0
		for k < nx && k < ny {
			p, q := x.alts[nx-1-k], y.alts[ny-1-k]
			if p.g != q.g || p.obj != q.obj || !samePath(p.path, q.path) {
				break
			}
			k++
		}
		var alts []PAlt
		ng := tb.Not(g)
		if k == 0 && ny < nx {
			// guard the shorter list; the longer one follows unchanged (it is
			// exhaustive under the complementary condition)
			for _, al := range y.alts {
				ag := tb.And(ng, al.g)
				if !ag.IsFalse() {
					alts = append(alts, PAlt{g: ag, obj: al.obj, path: al.path})
				}
			}
			alts = append(alts, x.alts...)
			return &PtrV{alts: alts}
		}
		for _, al := range x.alts[:nx-k] {
			ag := tb.And(g, al.g)
			if !ag.IsFalse() {
				alts = append(alts, PAlt{g: ag, obj: al.obj, path: al.path})
			}
		}
		if k == 0 {
			// x is exhaustive under g: y's alternatives follow unchanged
			alts = append(alts, y.alts...)
		} else {
			for _, al := range y.alts[:ny-k] {
				ag := tb.And(ng, al.g)
				if !ag.IsFalse() {
					alts = append(alts, PAlt{g: ag, obj: al.obj, path: al.path})
				}
			}
			alts = append(alts, x.alts[nx-k:]...)
		}
		// coalesce adjacent alternatives with the same target
		out := alts[:0:0]
		for _, al := range alts {
			if n := len(out); n > 0 && out[n-1].obj == al.obj && samePath(out[n-1].path, al.path) {
				out[n-1].g = tb.Or(out[n-1].g, al.g)
				continue
			}
			out = append(out, al)
		}
		return &PtrV{alts: out}
	case *SliceV:
		y := b.(*SliceV)
		if x == y {
			return x
		}
		if x.opaque || y.opaque {
			// opaque strings: keep opaque
			return &SliceV{str: true, opaque: true, ln: tb.Ite(g, x.ln, y.ln)}
		}
		r := &SliceV{str: x.str, ln: tb.Ite(g, x.ln, y.ln)}
		if !x.str {
			r.cp = tb.Ite(g, x.cp, y.cp)
		}
		if len(x.alts) == 1 && len(y.alts) == 1 && x.alts[0].obj == y.alts[0].obj {
			r.alts = []SAlt{{g: tb.True, obj: x.alts[0].obj, off: tb.Ite(g, x.alts[0].off, y.alts[0].off)}}
			return r
		}
		ng := tb.Not(g)
		add := func(gg *Term, a SAlt, parent *SliceV) {
			ag := tb.And(gg, a.g)
			if ag.IsFalse() {
				return
			}
			var acp *Term
			if !x.str {
				acp = parent.altCap(a)
			}
			for i := range r.alts {
				if r.alts[i].obj == a.obj && r.alts[i].off == a.off {
					if acp != nil && r.alts[i].cp != acp {
						r.alts[i].cp = tb.Ite(ag, acp, r.alts[i].cp)
					}
					r.alts[i].g = tb.Or(r.alts[i].g, ag)
					return
				}
			}
			r.alts = append(r.alts, SAlt{g: ag, obj: a.obj, off: a.off, cp: acp})
		}
		for _, al := range x.alts {
			add(g, al, x)
		}
		for _, al := range y.alts {
			add(ng, al, y)
		}
		return r
	case *IfaceV:
		y := b.(*IfaceV)
		if x == y {
			return x
		}
		ng := tb.Not(g)
		var alts []IAlt
		for _, al := range x.alts {
			ag := tb.And(g, al.g)
			if !ag.IsFalse() {
				alts = append(alts, IAlt{g: ag, typ: al.typ, v: al.v})
			}
		}
		for _, bl := range y.alts {
			bg := tb.And(ng, bl.g)
			if bg.IsFalse() {
				continue
			}
			done := false
			for i := range alts {
				if sameType(alts[i].typ, bl.typ) {
					// the existing alt's guard implies g or is a union; payload
					// selection uses the incoming alt's guard
					alts[i].v = ex.merge(bg, bl.v, alts[i].v)
					alts[i].g = tb.Or(alts[i].g, bg)
					done = true
					break
				}
			}
			if !done {
				alts = append(alts, IAlt{g: bg, typ: bl.typ, v: bl.v})
			}
		}
		return &IfaceV{alts: alts}
	case *StructV:
		y := b.(*StructV)
		if x == y {
			return x
		}
		f := make([]Value, len(x.f))
		for i := range f {
			f[i] = ex.merge(g, x.f[i], y.f[i])
		}
		return &StructV{f: f}
	case *ArrayV:
		y := b.(*ArrayV)
		if x == y {
			return x
		}
		n := len(x.e)
		if len(y.e) != n {
			unsup("merge arrays of different length")
		}
		if n > 0 && &x.e[0] == &y.e[0] {
			// shared base: merge the logs
			p := 0
			for p < len(x.log) && p < len(y.log) && sameEvent(x.log[p], y.log[p]) {
				p++
			}
			if p == len(x.log) && p == len(y.log) {
				return x
			}
			log := append([]wevent(nil), x.log[:p]...)
			for _, ev := range x.log[p:] {
				gg := tb.And(g, ev.g)
				if !gg.IsFalse() {
					log = append(log, wevent{g: gg, idx: ev.idx, rest: ev.rest, val: ev.val})
				}
			}
			ng := tb.Not(g)
			for _, ev := range y.log[p:] {
				gg := tb.And(ng, ev.g)
				if !gg.IsFalse() {
					log = append(log, wevent{g: gg, idx: ev.idx, rest: ev.rest, val: ev.val})
				}
			}
			return &ArrayV{e: x.e, log: log, acc: x.acc && y.acc, accBase: x.accBase}
		}
		fx, fy := ex.flatten(x), ex.flatten(y)
		e := make([]Value, n)
		for i := range e {
			e[i] = ex.merge(g, fx.e[i], fy.e[i])
		}
		return &ArrayV{e: e}
	case *TupleV:
		y := b.(*TupleV)
		v := make([]Value, len(x.v))
		for i := range v {
			v[i] = ex.merge(g, x.v[i], y.v[i])
		}
		return &TupleV{v: v}
	case *ClosureV:
		y := b.(*ClosureV)
		if x == y {
			return x
		}
		if x.fn == y.fn && x.native == nil && y.native == nil {
			bind := make([]Value, len(x.bind))
			for i := range bind {
				bind[i] = ex.merge(g, x.bind[i], y.bind[i])
			}
			return &ClosureV{fn: x.fn, bind: bind}
		}
		unsup("merge of distinct closures")
	case *MapV:
		y := b.(*MapV)
		if x == y {
			return x
		}
		unsup("merge of distinct maps")
	case *ReflectValue:
		y := b.(*ReflectValue)
		if x == y {
			return x
		}
		return ex.mergeReflect(g, x, y)
	case *ReflectType:
		y := b.(*ReflectType)
		if x == y || sameType(x.t, y.t) {
			return x
		}
		unsup("merge of distinct reflect types")
	}
	unsup("merge of %T", a)
	return nil
}

func sameEvent(a, b wevent) bool {
	return a.g == b.g && a.idx == b.idx && a.val == b.val && samePath(a.rest, b.rest)
}

func sameType(a, b types.Type) bool {
	if a == nil || b == nil {
		return a == nil && b == nil
	}
	return types.Identical(a, b)
}

// guardValue restricts alternatives of v by dropping those whose guard is
// syntactically false.
func describe(v Value) string {
	switch x := v.(type) {
	case *Term:
		if x.IsConst() {
			return fmt.Sprintf("%d", x.val)
		}
		return fmt.Sprintf("<t%d>", x.id)
	case *PtrV:
		return fmt.Sprintf("ptr(%d alts)", len(x.alts))
	case *SliceV:
		return fmt.Sprintf("slice(len=%s)", describe(x.ln))
	case *IfaceV:
		s := "iface{"
		for _, a := range x.alts {
			if a.typ == nil {
				s += "nil,"
			} else {
				s += a.typ.String() + ","
			}
		}
		return s + "}"
	case *StructV:
		return "struct"
	}
	return fmt.Sprintf("%T", v)
}
