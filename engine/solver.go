package main

// Persistent SMT solver processes speaking SMT-LIB2 over pipes.

import (
	"bufio"
	"fmt"
	"io"
	"os"
	"os/exec"
	"strconv"
	"strings"
	"time"
)

type SolverKind struct {
	Name string
	Cmd  []string
	Pre  []string
}

func solverKind(name string, timeoutMs int) SolverKind {
	switch name {
	case "z3":
		return SolverKind{Name: "z3", Cmd: []string{"z3", "-in", fmt.Sprintf("-t:%d", timeoutMs)}}
	case "z3-new":
		return SolverKind{Name: "z3-new", Cmd: []string{"z3-new", "-in", fmt.Sprintf("-t:%d", timeoutMs)}}
	case "cvc5":
		return SolverKind{Name: "cvc5", Cmd: []string{"cvc5", "--incremental", "--produce-models", "--lang=smt2", fmt.Sprintf("--tlimit-per=%d", timeoutMs)},
			Pre: []string{"(set-logic ALL)"}}
	case "cvc5-int":
		return SolverKind{Name: "cvc5-int", Cmd: []string{"cvc5", "--incremental", "--produce-models", "--lang=smt2", "--solve-bv-as-int=sum", fmt.Sprintf("--tlimit-per=%d", timeoutMs)},
			Pre: []string{"(set-logic ALL)"}}
	}
	panic("unknown solver " + name)
}

var slowQ = os.Getenv("VP_SLOWQ") != ""
var slowMs = func() time.Duration {
	if v := os.Getenv("VP_SLOWQ_MS"); v != "" {
		var n int
		fmt.Sscan(v, &n)
		return time.Duration(n) * time.Millisecond
	}
	return 500 * time.Millisecond
}()
var dumpSlow = os.Getenv("VP_DUMPSLOW")
var noSetOpt = os.Getenv("VP_NOSETOPT") != ""
var dumpN int

// DumpQuery writes a standalone SMT-LIB2 file for the conjunction.
func DumpQuery(path string, conj []*Term) {
	f, err := os.Create(path)
	if err != nil {
		return
	}
	defer f.Close()
	seen := map[int]bool{}
	var emit func(t *Term)
	emit = func(t *Term) {
		if t.op == OpConst || seen[t.id] {
			return
		}
		seen[t.id] = true
		for _, a := range t.args {
			emit(a)
		}
		if t.op == OpVar {
			fmt.Fprintf(f, "(declare-const %s %s)\n", t.name, t.sort)
		} else {
			fmt.Fprintf(f, "(define-fun t%d () %s %s)\n", t.id, t.sort, t.body())
		}
	}
	for _, t := range conj {
		emit(t)
	}
	for _, t := range conj {
		fmt.Fprintf(f, "(assert %s)\n", t.ref())
	}
	fmt.Fprintln(f, "(check-sat)")
}

type Solver struct {
	kind    SolverKind
	cmd     *exec.Cmd
	in      io.WriteCloser
	out     *bufio.Reader
	defined map[int]bool
	Queries int
	Sat     int
	Unsat   int
	Unknown int
	Time    time.Duration
	dead    bool
	log     io.Writer
	LastErr string
	tactic  string
	pushed  bool
	closed  bool
	hardLimit time.Duration
	quickMs int
	Kills   int
}

func StartSolver(k SolverKind) (*Solver, error) {
	cmd := exec.Command(k.Cmd[0], k.Cmd[1:]...)
	in, err := cmd.StdinPipe()
	if err != nil {
		return nil, err
	}
	out, err := cmd.StdoutPipe()
	if err != nil {
		return nil, err
	}
	cmd.Stderr = cmd.Stdout
	if err := cmd.Start(); err != nil {
		return nil, err
	}
	s := &Solver{kind: k, cmd: cmd, in: in, out: bufio.NewReaderSize(out, 1<<20), defined: map[int]bool{}}
	for _, p := range k.Pre {
		s.send(p)
	}
	if strings.HasPrefix(k.Name, "z3") {
		s.tactic = os.Getenv("VP_Z3TACTIC")
	}
	return s, nil
}

func (s *Solver) Close() {
	if s == nil || s.dead {
		return
	}
	s.dead = true
	s.closed = true
	s.in.Close()
	s.cmd.Process.Kill()
	s.cmd.Wait()
}

func (s *Solver) send(line string) {
	if s.log != nil {
		fmt.Fprintln(s.log, line)
	}
	io.WriteString(s.in, line)
	io.WriteString(s.in, "\n")
}

// roundTrip sends a command followed by an echo marker and returns all output
// lines before the marker.
func (s *Solver) roundTrip(cmd string) []string {
	if s.dead {
		if !s.restart() {
			return []string{"(error \"solver dead\")"}
		}
		// the caller's definitions are gone: it must re-define; signalled by error
		return []string{"(error \"solver restarted\")"}
	}
	s.send(cmd)
	s.send(`(echo "@@done@@")`)
	type res struct {
		lines []string
	}
	ch := make(chan res, 1)
	out := s.out
	go func() {
		var lines []string
		for {
			l, err := out.ReadString('\n')
			l = strings.TrimSpace(l)
			if strings.Contains(l, "@@done@@") {
				break
			}
			if l != "" {
				lines = append(lines, l)
			}
			if err != nil {
				lines = append(lines, "(error \"solver died\")")
				break
			}
		}
		ch <- res{lines}
	}()
	limit := s.hardLimit
	if s.quickMs > 0 {
		limit = time.Duration(s.quickMs)*time.Millisecond*2 + 2*time.Second
	}
	select {
	case r := <-ch:
		for _, l := range r.lines {
			if strings.Contains(l, "solver died") {
				s.dead = true
			}
		}
		return r.lines
	case <-time.After(limit):
		// z3 4.8.12 does not honour its timeout inside preprocessing: kill it
		s.Kills++
		s.cmd.Process.Kill()
		<-ch
		s.cmd.Wait()
		s.dead = true
		return []string{"(error \"watchdog timeout\")"}
	}
}

func (s *Solver) restart() bool {
	n, err := StartSolver(s.kind)
	if err != nil {
		return false
	}
	n.hardLimit = s.hardLimit
	s.cmd, s.in, s.out = n.cmd, n.in, n.out
	s.defined = map[int]bool{}
	s.dead = false
	s.pushed = false
	return true
}

// define emits definitions for every not-yet-defined term in the cone of t.
func (s *Solver) define(t *Term) {
	if t.op == OpConst || s.defined[t.id] {
		return
	}
	if s.pushed {
		s.send("(pop 1)")
		s.pushed = false
	}
	// iterative post-order to avoid deep recursion on long chains
	type fr struct {
		t *Term
		i int
	}
	stack := []fr{{t, 0}}
	for len(stack) > 0 {
		top := &stack[len(stack)-1]
		if top.t.op == OpConst || s.defined[top.t.id] {
			stack = stack[:len(stack)-1]
			continue
		}
		if top.i < len(top.t.args) {
			a := top.t.args[top.i]
			top.i++
			if a.op != OpConst && !s.defined[a.id] {
				stack = append(stack, fr{a, 0})
			}
			continue
		}
		x := top.t
		stack = stack[:len(stack)-1]
		s.defined[x.id] = true
		if x.op == OpVar {
			s.send(fmt.Sprintf("(declare-const %s %s)", x.name, x.sort))
		} else {
			s.send(fmt.Sprintf("(define-fun t%d () %s %s)", x.id, x.sort, x.body()))
		}
	}
}

// CheckQuick is Check under a short timeout (z3 only); unknown on expiry.
func (s *Solver) CheckQuick(ms int, conj ...*Term) string {
	if !strings.HasPrefix(s.kind.Name, "z3") {
		return s.Check(conj...)
	}
	if s.dead {
		s.restart()
	}
	if !noSetOpt {
		s.send(fmt.Sprintf("(set-option :timeout %d)", ms))
	}
	s.quickMs = ms
	r := s.Check(conj...)
	s.quickMs = 0
	if !s.dead && !noSetOpt {
		s.send("(set-option :timeout 4294967295)")
	}
	return r
}

// Check decides satisfiability of the conjunction of the given terms.
// Returns "sat", "unsat" or "unknown" (timeouts, errors).
func (s *Solver) Check(conj ...*Term) string {
	if s.dead {
		if !s.restart() {
			return "unknown"
		}
	}
	var refs []string
	for _, t := range conj {
		if t.IsTrue() {
			continue
		}
		if t.IsFalse() {
			return "unsat"
		}
		s.define(t)
		refs = append(refs, t.ref())
	}
	t0 := time.Now()
	var lines []string
	if len(refs) == 0 {
		lines = s.roundTrip("(check-sat)")
	} else if s.tactic != "" {
		if s.pushed {
			s.send("(pop 1)")
		}
		s.send("(push 1)")
		s.pushed = true
		s.send("(assert (and true " + strings.Join(refs, " ") + "))")
		lines = s.roundTrip("(check-sat-using " + s.tactic + ")")
	} else {
		lines = s.roundTrip("(check-sat-assuming (" + strings.Join(refs, " ") + "))")
	}
	s.Time += time.Since(t0)
	s.Queries++
	if d := time.Since(t0); dumpSlow != "" && d > 5*time.Second {
		dumpN++
		DumpQuery(fmt.Sprintf("%s/slow_%d_%d.smt2", dumpSlow, os.Getpid(), dumpN), conj)
	}
	if d := time.Since(t0); slowQ && d > slowMs {
		fmt.Printf("SLOWQ %.2fs defined=%d refs=%v -> %v\n", d.Seconds(), len(s.defined), refs, lines)
	}
	res := "unknown"
	for _, l := range lines {
		if strings.HasPrefix(l, "(error") {
			s.LastErr = l
			s.Unknown++
			return "unknown"
		}
	}
	for _, l := range lines {
		if l == "sat" || l == "unsat" || l == "unknown" {
			res = l
		}
	}
	switch res {
	case "sat":
		s.Sat++
	case "unsat":
		s.Unsat++
	default:
		s.Unknown++
	}
	return res
}

// Values returns the model values of the given BV/Bool terms after a sat
// answer. The result is indexed like ts.
func (s *Solver) Values(ts []*Term) ([]uint64, bool) {
	out := make([]uint64, len(ts))
	const chunk = 200
	for base := 0; base < len(ts); base += chunk {
		end := base + chunk
		if end > len(ts) {
			end = len(ts)
		}
		var refs []string
		idx := []int{}
		for i := base; i < end; i++ {
			t := ts[i]
			if t.IsConst() {
				out[i] = t.val
				continue
			}
			if !s.defined[t.id] {
				// a variable never sent to the solver is unconstrained
				if t.op == OpVar {
					out[i] = 0
					continue
				}
				return nil, false
			}
			refs = append(refs, t.ref())
			idx = append(idx, i)
		}
		if len(refs) == 0 {
			continue
		}
		lines := s.roundTrip("(get-value (" + strings.Join(refs, " ") + "))")
		txt := strings.Join(lines, " ")
		if strings.Contains(txt, "(error") {
			s.LastErr = txt
			return nil, false
		}
		vals := parseValues(txt)
		if len(vals) != len(refs) {
			s.LastErr = "get-value parse: " + txt
			return nil, false
		}
		for k, v := range vals {
			out[idx[k]] = v
		}
	}
	return out, true
}

// parseValues parses "((a #x01) (b true) ...)" into values in order.
func parseValues(txt string) []uint64 {
	var out []uint64
	// tokenise
	toks := []string{}
	cur := strings.Builder{}
	flush := func() {
		if cur.Len() > 0 {
			toks = append(toks, cur.String())
			cur.Reset()
		}
	}
	for _, r := range txt {
		switch r {
		case '(', ')':
			flush()
			toks = append(toks, string(r))
		case ' ', '\t', '\n':
			flush()
		default:
			cur.WriteRune(r)
		}
	}
	flush()
	// expect ( ( name value ) ... ) where value is an atom or (_ bvN w)
	i := 0
	if i < len(toks) && toks[i] == "(" {
		i++
	}
	for i < len(toks) && toks[i] == "(" {
		i++ // (
		// name may itself be an s-expr? we only query symbols
		i++ // name
		if i >= len(toks) {
			break
		}
		if toks[i] == "(" {
			// (_ bv123 32)
			depth := 0
			var inner []string
			for i < len(toks) {
				if toks[i] == "(" {
					depth++
				} else if toks[i] == ")" {
					depth--
					if depth == 0 {
						i++
						break
					}
				} else {
					inner = append(inner, toks[i])
				}
				i++
			}
			var v uint64
			if len(inner) >= 2 && inner[0] == "_" && strings.HasPrefix(inner[1], "bv") {
				v, _ = strconv.ParseUint(inner[1][2:], 10, 64)
			}
			out = append(out, v)
		} else {
			out = append(out, parseAtom(toks[i]))
			i++
		}
		if i < len(toks) && toks[i] == ")" {
			i++
		}
	}
	return out
}

func parseAtom(a string) uint64 {
	switch {
	case a == "true":
		return 1
	case a == "false":
		return 0
	case strings.HasPrefix(a, "#x"):
		v, _ := strconv.ParseUint(a[2:], 16, 64)
		return v
	case strings.HasPrefix(a, "#b"):
		v, _ := strconv.ParseUint(a[2:], 2, 64)
		return v
	}
	v, _ := strconv.ParseUint(a, 10, 64)
	return v
}


// ---------------------------------------------------------------- portfolio

type PortfolioStats struct {
	Runs    int
	Wins    map[string]int
	Time    time.Duration
	Timeout int
}

// Portfolio decides the conjunction with several one-shot solver processes in
// parallel; the first definite answer wins. vars are reported in the model.
func Portfolio(conj []*Term, vars []*Term, timeout time.Duration, ps *PortfolioStats) (string, []uint64, string) {
	dir, err := os.MkdirTemp("", "vpq")
	if err != nil {
		return "unknown", nil, ""
	}
	defer os.RemoveAll(dir)
	base := dir + "/q.smt2"
	DumpQuery(base, conj)
	// append model request
	var names []string
	seen := map[string]bool{}
	b, _ := os.ReadFile(base)
	txt := string(b)
	for _, v := range vars {
		if v.op == OpVar {
			if !strings.Contains(txt, "(declare-const "+v.name+" ") && !seen[v.name] {
				txt = fmt.Sprintf("(declare-const %s %s)\n", v.name, v.sort) + txt
			}
			seen[v.name] = true
			names = append(names, v.name)
		}
	}
	getv := ""
	if len(names) > 0 {
		getv = "(get-value (" + strings.Join(names, " ") + "))\n"
	}
	os.WriteFile(base, []byte("(set-option :produce-models true)\n"+txt+getv), 0o644)
	os.WriteFile(dir+"/c.smt2", []byte("(set-option :produce-models true)\n(set-logic ALL)\n"+txt+getv), 0o644)
	type ans struct {
		res   string
		vals  []uint64
		who   string
	}
	secs := fmt.Sprint(int(timeout.Seconds()) + 1)
	cmds := [][]string{
		{"z3-new", "-T:" + secs, base},
		{"z3", "-T:" + secs, base},
		{"cvc5", "--lang=smt2", "--tlimit=" + fmt.Sprint(int(timeout.Milliseconds())+1000), dir + "/c.smt2"},
	}
	ch := make(chan ans, len(cmds))
	var procs []*exec.Cmd
	t0 := time.Now()
	for _, c := range cmds {
		cmd := exec.Command(c[0], c[1:]...)
		var obuf strings.Builder
		cmd.Stdout = &obuf
		if err := cmd.Start(); err != nil {
			ch <- ans{res: "unknown", who: c[0]}
			continue
		}
		procs = append(procs, cmd)
		go func(cmd *exec.Cmd, who string, obuf *strings.Builder) {
			cmd.Wait()
			out := obuf.String()
			lines := strings.Split(strings.TrimSpace(string(out)), "\n")
			a := ans{res: "unknown", who: who}
			if len(lines) > 0 {
				switch strings.TrimSpace(lines[0]) {
				case "sat":
					a.res = "sat"
					rest := strings.Join(lines[1:], " ")
					vals := parseValues(rest)
					if len(vals) == len(names) && !strings.Contains(rest, "(error") {
						a.vals = vals
					} else if len(names) > 0 {
						a.res = "unknown"
					}
				case "unsat":
					a.res = "unsat"
				}
			}
			ch <- a
		}(cmd, c[0], &obuf)
	}
	res, who := "unknown", ""
	var vals []uint64
	timer := time.After(timeout)
	got := 0
loop:
	for got < len(cmds) {
		select {
		case a := <-ch:
			got++
			if a.res != "unknown" {
				res, vals, who = a.res, a.vals, a.who
				break loop
			}
		case <-timer:
			if ps != nil {
				ps.Timeout++
			}
			break loop
		}
	}
	for _, p := range procs {
		if p.Process != nil {
			p.Process.Kill()
		}
	}
	if ps != nil {
		ps.Runs++
		ps.Time += time.Since(t0)
		if who != "" {
			if ps.Wins == nil {
				ps.Wins = map[string]int{}
			}
			ps.Wins[who]++
		}
	}
	// map values back to the requested variable order
	if res == "sat" && vals != nil {
		out := make([]uint64, len(vars))
		k := 0
		for i, v := range vars {
			if v.op == OpVar {
				out[i] = vals[k]
				k++
			} else if v.IsConst() {
				out[i] = v.val
			}
		}
		vals = out
	}
	return res, vals, who
}
