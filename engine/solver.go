package main

// Persistent SMT solver processes speaking SMT-LIB2 over pipes.

import (
	"bufio"
	"fmt"
	"io"
	"os/exec"
	"strconv"
	"strings"
	"time"
)

type SolverKind struct {
	Name string
	Cmd  []string
	Pre  []string
}

func solverKind(name string, timeoutMs int) SolverKind {
	switch name {
	case "z3":
		return SolverKind{Name: "z3", Cmd: []string{"z3", "-in", fmt.Sprintf("-t:%d", timeoutMs)}}
	case "z3-new":
		return SolverKind{Name: "z3-new", Cmd: []string{"z3-new", "-in", fmt.Sprintf("-t:%d", timeoutMs)}}
	case "cvc5":
		return SolverKind{Name: "cvc5", Cmd: []string{"cvc5", "--incremental", "--produce-models", "--lang=smt2", fmt.Sprintf("--tlimit-per=%d", timeoutMs)},
			Pre: []string{"(set-logic ALL)"}}
	case "cvc5-int":
		return SolverKind{Name: "cvc5-int", Cmd: []string{"cvc5", "--incremental", "--produce-models", "--lang=smt2", "--solve-bv-as-int=sum", fmt.Sprintf("--tlimit-per=%d", timeoutMs)},
			Pre: []string{"(set-logic ALL)"}}
	}
	panic("unknown solver " + name)
}

type Solver struct {
	kind    SolverKind
	cmd     *exec.Cmd
	in      io.WriteCloser
	out     *bufio.Reader
	defined map[int]bool
	Queries int
	Sat     int
	Unsat   int
	Unknown int
	Time    time.Duration
	dead    bool
	log     io.Writer
	LastErr string
}

func StartSolver(k SolverKind) (*Solver, error) {
	cmd := exec.Command(k.Cmd[0], k.Cmd[1:]...)
	in, err := cmd.StdinPipe()
	if err != nil {
		return nil, err
	}
	out, err := cmd.StdoutPipe()
	if err != nil {
		return nil, err
	}
	cmd.Stderr = cmd.Stdout
	if err := cmd.Start(); err != nil {
		return nil, err
	}
	s := &Solver{kind: k, cmd: cmd, in: in, out: bufio.NewReaderSize(out, 1<<20), defined: map[int]bool{}}
	for _, p := range k.Pre {
		s.send(p)
	}
	return s, nil
}

func (s *Solver) Close() {
	if s == nil || s.dead {
		return
	}
	s.dead = true
	s.in.Close()
	s.cmd.Process.Kill()
	s.cmd.Wait()
}

func (s *Solver) send(line string) {
	if s.log != nil {
		fmt.Fprintln(s.log, line)
	}
	io.WriteString(s.in, line)
	io.WriteString(s.in, "\n")
}

// roundTrip sends a command followed by an echo marker and returns all output
// lines before the marker.
func (s *Solver) roundTrip(cmd string) []string {
	s.send(cmd)
	s.send(`(echo "@@done@@")`)
	var lines []string
	for {
		l, err := s.out.ReadString('\n')
		l = strings.TrimSpace(l)
		if strings.Contains(l, "@@done@@") {
			break
		}
		if l != "" {
			lines = append(lines, l)
		}
		if err != nil {
			s.dead = true
			lines = append(lines, "(error \"solver died\")")
			break
		}
	}
	return lines
}

// define emits definitions for every not-yet-defined term in the cone of t.
func (s *Solver) define(t *Term) {
	if t.op == OpConst || s.defined[t.id] {
		return
	}
	// iterative post-order to avoid deep recursion on long chains
	type fr struct {
		t *Term
		i int
	}
	stack := []fr{{t, 0}}
	for len(stack) > 0 {
		top := &stack[len(stack)-1]
		if top.t.op == OpConst || s.defined[top.t.id] {
			stack = stack[:len(stack)-1]
			continue
		}
		if top.i < len(top.t.args) {
			a := top.t.args[top.i]
			top.i++
			if a.op != OpConst && !s.defined[a.id] {
				stack = append(stack, fr{a, 0})
			}
			continue
		}
		x := top.t
		stack = stack[:len(stack)-1]
		s.defined[x.id] = true
		if x.op == OpVar {
			s.send(fmt.Sprintf("(declare-const %s %s)", x.name, x.sort))
		} else {
			s.send(fmt.Sprintf("(define-fun t%d () %s %s)", x.id, x.sort, x.body()))
		}
	}
}

// Check decides satisfiability of the conjunction of the given terms.
// Returns "sat", "unsat" or "unknown" (timeouts, errors).
func (s *Solver) Check(conj ...*Term) string {
	if s.dead {
		return "unknown"
	}
	var refs []string
	for _, t := range conj {
		if t.IsTrue() {
			continue
		}
		if t.IsFalse() {
			return "unsat"
		}
		s.define(t)
		refs = append(refs, t.ref())
	}
	t0 := time.Now()
	var lines []string
	if len(refs) == 0 {
		lines = s.roundTrip("(check-sat)")
	} else {
		lines = s.roundTrip("(check-sat-assuming (" + strings.Join(refs, " ") + "))")
	}
	s.Time += time.Since(t0)
	s.Queries++
	res := "unknown"
	for _, l := range lines {
		if strings.HasPrefix(l, "(error") {
			s.LastErr = l
			s.Unknown++
			return "unknown"
		}
	}
	for _, l := range lines {
		if l == "sat" || l == "unsat" || l == "unknown" {
			res = l
		}
	}
	switch res {
	case "sat":
		s.Sat++
	case "unsat":
		s.Unsat++
	default:
		s.Unknown++
	}
	return res
}

// Values returns the model values of the given BV/Bool terms after a sat
// answer. The result is indexed like ts.
func (s *Solver) Values(ts []*Term) ([]uint64, bool) {
	out := make([]uint64, len(ts))
	const chunk = 200
	for base := 0; base < len(ts); base += chunk {
		end := base + chunk
		if end > len(ts) {
			end = len(ts)
		}
		var refs []string
		idx := []int{}
		for i := base; i < end; i++ {
			t := ts[i]
			if t.IsConst() {
				out[i] = t.val
				continue
			}
			if !s.defined[t.id] {
				// a variable never sent to the solver is unconstrained
				if t.op == OpVar {
					out[i] = 0
					continue
				}
				return nil, false
			}
			refs = append(refs, t.ref())
			idx = append(idx, i)
		}
		if len(refs) == 0 {
			continue
		}
		lines := s.roundTrip("(get-value (" + strings.Join(refs, " ") + "))")
		txt := strings.Join(lines, " ")
		if strings.Contains(txt, "(error") {
			s.LastErr = txt
			return nil, false
		}
		vals := parseValues(txt)
		if len(vals) != len(refs) {
			s.LastErr = "get-value parse: " + txt
			return nil, false
		}
		for k, v := range vals {
			out[idx[k]] = v
		}
	}
	return out, true
}

// parseValues parses "((a #x01) (b true) ...)" into values in order.
func parseValues(txt string) []uint64 {
	var out []uint64
	// tokenise
	toks := []string{}
	cur := strings.Builder{}
	flush := func() {
		if cur.Len() > 0 {
			toks = append(toks, cur.String())
			cur.Reset()
		}
	}
	for _, r := range txt {
		switch r {
		case '(', ')':
			flush()
			toks = append(toks, string(r))
		case ' ', '\t', '\n':
			flush()
		default:
			cur.WriteRune(r)
		}
	}
	flush()
	// expect ( ( name value ) ... ) where value is an atom or (_ bvN w)
	i := 0
	if i < len(toks) && toks[i] == "(" {
		i++
	}
	for i < len(toks) && toks[i] == "(" {
		i++ // (
		// name may itself be an s-expr? we only query symbols
		i++ // name
		if i >= len(toks) {
			break
		}
		if toks[i] == "(" {
			// (_ bv123 32)
			depth := 0
			var inner []string
			for i < len(toks) {
				if toks[i] == "(" {
					depth++
				} else if toks[i] == ")" {
					depth--
					if depth == 0 {
						i++
						break
					}
				} else {
					inner = append(inner, toks[i])
				}
				i++
			}
			var v uint64
			if len(inner) >= 2 && inner[0] == "_" && strings.HasPrefix(inner[1], "bv") {
				v, _ = strconv.ParseUint(inner[1][2:], 10, 64)
			}
			out = append(out, v)
		} else {
			out = append(out, parseAtom(toks[i]))
			i++
		}
		if i < len(toks) && toks[i] == ")" {
			i++
		}
	}
	return out
}

func parseAtom(a string) uint64 {
	switch {
	case a == "true":
		return 1
	case a == "false":
		return 0
	case strings.HasPrefix(a, "#x"):
		v, _ := strconv.ParseUint(a[2:], 16, 64)
		return v
	case strings.HasPrefix(a, "#b"):
		v, _ := strconv.ParseUint(a[2:], 2, 64)
		return v
	}
	v, _ := strconv.ParseUint(a, 10, 64)
	return v
}
