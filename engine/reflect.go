package main

// A model of the part of package reflect that pion/rtcp uses, evaluated
// against the engine's own typed heap. All type-level information comes from
// go/types of the current source.

import (
	"go/types"
	"reflect"
	"strings"

	"golang.org/x/tools/go/ssa"
)

type ReflectValue struct {
	valid bool
	typ   types.Type
	ptr   *PtrV // storage when addressable
	val   Value // value when not addressable
	addr  bool
	ro    bool
	multi *IfaceV // ValueOf a multi-alternative interface (opaque)
	// method values
	method *ssa.Function
	recv   Value
}

type ReflectType struct{ t types.Type }

func (ex *Exec) mergeReflect(g *Term, x, y *ReflectValue) Value {
	if x.valid != y.valid || x.addr != y.addr || x.ro != y.ro || !sameType(x.typ, y.typ) || x.method != y.method {
		unsup("merge of differently shaped reflect.Values")
	}
	r := *x
	if x.addr {
		r.ptr = ex.merge(g, x.ptr, y.ptr).(*PtrV)
	} else if x.val != nil || y.val != nil {
		r.val = ex.merge(g, x.val, y.val)
	}
	return &r
}

func kindOf(t types.Type) reflect.Kind {
	switch u := t.Underlying().(type) {
	case *types.Basic:
		switch u.Kind() {
		case types.Bool:
			return reflect.Bool
		case types.Int:
			return reflect.Int
		case types.Int8:
			return reflect.Int8
		case types.Int16:
			return reflect.Int16
		case types.Int32:
			return reflect.Int32
		case types.Int64:
			return reflect.Int64
		case types.Uint:
			return reflect.Uint
		case types.Uint8:
			return reflect.Uint8
		case types.Uint16:
			return reflect.Uint16
		case types.Uint32:
			return reflect.Uint32
		case types.Uint64:
			return reflect.Uint64
		case types.Uintptr:
			return reflect.Uintptr
		case types.Float32:
			return reflect.Float32
		case types.Float64:
			return reflect.Float64
		case types.String:
			return reflect.String
		case types.UnsafePointer:
			return reflect.UnsafePointer
		}
	case *types.Array:
		return reflect.Array
	case *types.Chan:
		return reflect.Chan
	case *types.Signature:
		return reflect.Func
	case *types.Interface:
		return reflect.Interface
	case *types.Map:
		return reflect.Map
	case *types.Pointer:
		return reflect.Ptr
	case *types.Slice:
		return reflect.Slice
	case *types.Struct:
		return reflect.Struct
	}
	return reflect.Invalid
}

// rvLoad returns the current value held by rv.
func (ex *Exec) rvLoad(s *State, rv *ReflectValue, site string) Value {
	if rv.addr {
		return ex.load(s, rv.ptr, site)
	}
	return rv.val
}

func (ex *Exec) rvOfIface(s *State, iv *IfaceV) *ReflectValue {
	live := 0
	var one IAlt
	for _, a := range iv.alts {
		if !ex.simp(s, a.g).IsFalse() {
			live++
			one = a
		}
	}
	if live > 1 && ex.feasBranches {
		// let the solver discard alternatives that are infeasible on this path
		pc := ex.pcTerm(s)
		live = 0
		for _, a := range iv.alts {
			if ex.simp(s, a.g).IsFalse() {
				continue
			}
			if ex.solver.CheckQuick(ex.feasMs, pc, a.g) == "unsat" {
				continue
			}
			live++
			one = a
		}
	}
	if live == 0 && ex.feasBranches {
		// no alternative is feasible: the path itself is infeasible
		ex.restrictions++
		s.dead = true
		return &ReflectValue{}
	}
	if live != 1 {
		return &ReflectValue{valid: true, multi: iv}
	}
	if one.typ == nil {
		return &ReflectValue{}
	}
	return &ReflectValue{valid: true, typ: one.typ, val: one.v}
}

func (ex *Exec) rvIndirect(s *State, rv *ReflectValue) *ReflectValue {
	if rv.multi != nil {
		return rv
	}
	if !rv.valid {
		return rv
	}
	pt, ok := rv.typ.Underlying().(*types.Pointer)
	if !ok {
		return rv
	}
	p := ex.rvLoad(s, rv, "reflect.Indirect").(*PtrV)
	// nil pointer => zero Value; only single-alternative nil handled
	if len(p.alts) == 1 && p.alts[0].obj == 0 {
		return &ReflectValue{}
	}
	return &ReflectValue{valid: true, typ: pt.Elem(), ptr: p, addr: true}
}

func (ex *Exec) rvArg(v Value) *ReflectValue {
	rv, ok := v.(*ReflectValue)
	if !ok {
		unsup("expected reflect.Value, got %T", v)
	}
	return rv
}

func (ex *Exec) needValid(s *State, rv *ReflectValue, site, what string) bool {
	if rv.multi != nil {
		unsup("reflect.Value.%s on a multi-typed value", what)
	}
	if !rv.valid {
		ex.vc(s, "panic", site+": reflect: call of Value."+what+" on zero Value", ex.tb.True)
		return false
	}
	return true
}

func (ex *Exec) structFieldValue(s *State, st *types.Struct, i int, parent types.Type) Value {
	// reflect.StructField{Name, PkgPath, Type, Tag, Offset, Index, Anonymous}
	f := st.Field(i)
	pkgPath := ""
	if !f.Exported() && f.Pkg() != nil {
		pkgPath = f.Pkg().Path()
	}
	offs := ex.sizes.Offsetsof(structFields(st))
	return &StructV{f: []Value{
		ex.strConst(s, f.Name()),
		ex.strConst(s, pkgPath),
		&ReflectType{t: f.Type()},
		ex.strConst(s, st.Tag(i)),
		ex.tb.BV(uint64(offs[i]), 64),
		ex.nilSlice(false),
		ex.tb.Bool(f.Embedded()),
	}}
}

func structFields(st *types.Struct) []*types.Var {
	fs := make([]*types.Var, st.NumFields())
	for i := range fs {
		fs[i] = st.Field(i)
	}
	return fs
}

func (ex *Exec) findMethod(t types.Type, name string) *ssa.Function {
	ms := ex.prog.MethodSets.MethodSet(t)
	for i := 0; i < ms.Len(); i++ {
		sel := ms.At(i)
		if sel.Obj().Name() == name && sel.Obj().Exported() {
			return ex.prog.MethodValue(sel)
		}
	}
	return nil
}

// reflectTypeMethod dispatches methods of the reflect.Type interface.
func (ex *Exec) reflectTypeMethod(s *State, rt *ReflectType, name string, args []Value, site string) Value {
	tb := ex.tb
	if rt.t == nil {
		switch name {
		case "String", "Name":
			return ex.opaqueStr(s)
		case "Implements":
			// dynamic type not tracked here: either answer is possible
			return tb.Fresh("impl", BoolSort)
		case "Kind":
			return tb.BV(uint64(reflect.Ptr), 64)
		}
		unsup("reflect.Type.%s on unknown type", name)
	}
	switch name {
	case "Kind":
		return tb.BV(uint64(kindOf(rt.t)), 64)
	case "Size":
		return tb.BV(uint64(ex.sizeof(rt.t)), 64)
	case "Elem":
		switch u := rt.t.Underlying().(type) {
		case *types.Pointer:
			return &ReflectType{t: u.Elem()}
		case *types.Slice:
			return &ReflectType{t: u.Elem()}
		case *types.Array:
			return &ReflectType{t: u.Elem()}
		case *types.Map:
			return &ReflectType{t: u.Elem()}
		}
		ex.vc(s, "panic", site+": reflect: Elem of invalid type", tb.True)
		return nil
	case "Field":
		st, ok := rt.t.Underlying().(*types.Struct)
		i := constInt(args[0], "reflect Type.Field index")
		if !ok || i < 0 || i >= st.NumFields() {
			ex.vc(s, "panic", site+": reflect: Field index out of bounds", tb.True)
			return nil
		}
		return ex.structFieldValue(s, st, i, rt.t)
	case "NumField":
		st, ok := rt.t.Underlying().(*types.Struct)
		if !ok {
			ex.vc(s, "panic", site+": reflect: NumField of non-struct type", tb.True)
			return nil
		}
		return ex.i64(st.NumFields())
	case "String":
		return ex.strConst(s, types.TypeString(rt.t, func(p *types.Package) string { return p.Name() }))
	case "Name":
		if n, ok := rt.t.(*types.Named); ok {
			return ex.strConst(s, n.Obj().Name())
		}
		return ex.strConst(s, "")
	case "Implements":
		u := args[0].(*ReflectType)
		it, ok := u.t.Underlying().(*types.Interface)
		if !ok {
			ex.vc(s, "panic", site+": reflect: non-interface type passed to Type.Implements", tb.True)
			return nil
		}
		return tb.Bool(types.Implements(rt.t, it))
	case "MethodByName":
		nm := ex.constString(s, args[0])
		m := ex.findMethod(rt.t, nm)
		return &TupleV{v: []Value{nil, tb.Bool(m != nil)}}
	}
	unsup("reflect.Type.%s not modelled", name)
	return nil
}

func (ex *Exec) reflectCall(s *State, f *ssa.Function, name string, args []Value, site string) Value {
	tb := ex.tb
	ex.stubsSeen["reflect model"] = true
	switch name {
	case "reflect.ValueOf":
		return ex.rvOfIface(s, args[0].(*IfaceV))
	case "reflect.TypeOf":
		rv := ex.rvOfIface(s, args[0].(*IfaceV))
		if rv.multi != nil {
			return &ReflectType{}
		}
		if !rv.valid {
			unsup("reflect.TypeOf(nil)")
		}
		return &ReflectType{t: rv.typ}
	case "reflect.Indirect":
		return ex.rvIndirect(s, ex.rvArg(args[0]))
	case "reflect.New":
		rt := args[0].(*ReflectType)
		id := ex.newObj(s, rt.t, ex.zero(rt.t), "reflect.New")
		ex.addAlloc(s, ex.i64(int(ex.sizeof(rt.t))))
		return &ReflectValue{valid: true, typ: types.NewPointer(rt.t), val: ex.ptrTo(id)}
	case "reflect.NewAt":
		rt := args[0].(*ReflectType)
		return &ReflectValue{valid: true, typ: types.NewPointer(rt.t), val: args[1].(*PtrV)}
	case "reflect.Append":
		rv := ex.rvArg(args[0])
		if !ex.needValid(s, rv, site, "Append") {
			return nil
		}
		xs := args[1].(*SliceV)
		n := constInt(xs.ln, "reflect.Append argument count")
		cur := ex.rvLoad(s, rv, site).(*SliceV)
		et := rv.typ.Underlying().(*types.Slice).Elem()
		for i := 0; i < n; i++ {
			x := ex.rvArg(ex.sliceLoad(s, xs, ex.i64(i)))
			xv := ex.rvLoad(s, x, site)
			id := ex.newArrayObj(s, et, []Value{xv}, false)
			one := &SliceV{alts: []SAlt{{g: tb.True, obj: id, off: ex.i64(0)}}, ln: ex.i64(1), cp: ex.i64(1)}
			cur = ex.appendOp(s, cur, one, et, site)
		}
		return &ReflectValue{valid: true, typ: rv.typ, val: cur}
	case "(reflect.StructTag).Get":
		tag := ex.constString(s, args[0])
		key := ex.constString(s, args[1])
		return ex.strConst(s, reflect.StructTag(tag).Get(key))
	}
	if strings.HasPrefix(name, "(reflect.Value).") {
		m := strings.TrimPrefix(name, "(reflect.Value).")
		rv := ex.rvArg(args[0])
		return ex.reflectValueMethod(s, rv, m, args[1:], site)
	}
	unsup("reflect function %s not modelled", name)
	return nil
}

func (ex *Exec) reflectValueMethod(s *State, rv *ReflectValue, m string, args []Value, site string) Value {
	tb := ex.tb
	switch m {
	case "String":
		return ex.opaqueStr(s)
	case "IsValid":
		return tb.Bool(rv.valid)
	case "Kind":
		if rv.multi != nil {
			// only pointer-shaped packets/blocks flow here
			unsup("Kind of multi-typed reflect.Value")
		}
		if !rv.valid {
			return tb.BV(0, 64)
		}
		return tb.BV(uint64(kindOf(rv.typ)), 64)
	case "Type":
		if rv.multi != nil {
			return &ReflectType{}
		}
		if !ex.needValid(s, rv, site, m) {
			return nil
		}
		return &ReflectType{t: rv.typ}
	case "CanInterface":
		if !ex.needValid(s, rv, site, m) {
			return nil
		}
		return tb.Bool(!rv.ro)
	case "CanSet":
		return tb.Bool(rv.valid && rv.addr && !rv.ro)
	case "CanAddr":
		return tb.Bool(rv.valid && rv.addr)
	case "IsNil":
		if !ex.needValid(s, rv, site, m) {
			return nil
		}
		switch v := ex.rvLoad(s, rv, site).(type) {
		case *PtrV:
			var gs []*Term
			for _, a := range ex.eff(v) {
				if a.obj == 0 {
					gs = append(gs, a.g)
				}
			}
			return tb.Or(gs...)
		case *SliceV:
			return ex.sliceNil(v)
		case *IfaceV:
			var gs []*Term
			for _, a := range v.alts {
				if a.typ == nil {
					gs = append(gs, a.g)
				}
			}
			return tb.Or(gs...)
		case *MapV:
			return tb.Bool(v.isNil)
		case *ClosureV:
			return tb.Bool(v.fn == nil && v.native == nil)
		}
		ex.vc(s, "panic", site+": reflect: IsNil of non-nillable kind", tb.True)
		return nil
	case "Interface":
		if !ex.needValid(s, rv, site, m) {
			return nil
		}
		if rv.ro {
			ex.vc(s, "panic", site+": reflect.Value.Interface: unexported field", tb.True)
			return nil
		}
		v := ex.rvLoad(s, rv, site)
		if _, ok := rv.typ.Underlying().(*types.Interface); ok {
			return v
		}
		return ex.mkIface(rv.typ, v)
	case "Uint":
		if !ex.needValid(s, rv, site, m) {
			return nil
		}
		k := kindOf(rv.typ)
		if k < reflect.Uint || k > reflect.Uintptr {
			ex.vc(s, "panic", site+": reflect: call of Value.Uint on non-uint Value", tb.True)
			return nil
		}
		return tb.ZeroExt(ex.rvLoad(s, rv, site).(*Term), 64)
	case "SetUint":
		if !ex.needValid(s, rv, site, m) {
			return nil
		}
		if !rv.addr || rv.ro {
			ex.vc(s, "panic", site+": reflect: SetUint on unsettable Value", tb.True)
			return nil
		}
		k := kindOf(rv.typ)
		if k < reflect.Uint || k > reflect.Uintptr {
			ex.vc(s, "panic", site+": reflect: call of Value.SetUint on non-uint Value", tb.True)
			return nil
		}
		w := ex.intWidth(rv.typ.Underlying().(*types.Basic))
		ex.store(s, rv.ptr, tb.Extract(args[0].(*Term), w-1, 0), site)
		return &TupleV{}
	case "Set":
		if !ex.needValid(s, rv, site, m) {
			return nil
		}
		if !rv.addr || rv.ro {
			ex.vc(s, "panic", site+": reflect: Set on unsettable Value", tb.True)
			return nil
		}
		x := ex.rvArg(args[0])
		ex.store(s, rv.ptr, ex.rvLoad(s, x, site), site)
		return &TupleV{}
	case "Len":
		if !ex.needValid(s, rv, site, m) {
			return nil
		}
		switch v := ex.rvLoad(s, rv, site).(type) {
		case *SliceV:
			return v.ln
		case *ArrayV:
			return ex.i64(len(v.e))
		}
		ex.vc(s, "panic", site+": reflect: call of Value.Len on non-sequence", tb.True)
		return nil
	case "Index":
		if !ex.needValid(s, rv, site, m) {
			return nil
		}
		i := args[0].(*Term)
		switch u := rv.typ.Underlying().(type) {
		case *types.Slice:
			sl := ex.rvLoad(s, rv, site).(*SliceV)
			ex.vc(s, "panic", site+": reflect: slice index out of range", tb.Or(tb.Slt(i, ex.i64(0)), tb.Sle(sl.ln, i)))
			if s.dead {
				return nil
			}
			return &ReflectValue{valid: true, typ: u.Elem(), ptr: ex.sliceElemPtr(sl, i), addr: true, ro: rv.ro}
		case *types.Array:
			ex.vc(s, "panic", site+": reflect: array index out of range", tb.Or(tb.Slt(i, ex.i64(0)), tb.Sle(ex.i64(int(u.Len())), i)))
			if s.dead {
				return nil
			}
			if rv.addr {
				return &ReflectValue{valid: true, typ: u.Elem(), ptr: ex.subPtr(s, rv.ptr, PathEl{idx: i}, site), addr: true, ro: rv.ro}
			}
			return &ReflectValue{valid: true, typ: u.Elem(), val: ex.loadPath(rv.val, []PathEl{{idx: i}}), ro: rv.ro}
		}
		ex.vc(s, "panic", site+": reflect: call of Value.Index on non-sequence", tb.True)
		return nil
	case "NumField":
		if !ex.needValid(s, rv, site, m) {
			return nil
		}
		st, ok := rv.typ.Underlying().(*types.Struct)
		if !ok {
			ex.vc(s, "panic", site+": reflect: NumField of non-struct", tb.True)
			return nil
		}
		return ex.i64(st.NumFields())
	case "Field":
		if !ex.needValid(s, rv, site, m) {
			return nil
		}
		st, ok := rv.typ.Underlying().(*types.Struct)
		i := constInt(args[0], "reflect Value.Field index")
		if !ok || i < 0 || i >= st.NumFields() {
			ex.vc(s, "panic", site+": reflect: Field index out of range", tb.True)
			return nil
		}
		f := st.Field(i)
		r := &ReflectValue{valid: true, typ: f.Type(), ro: rv.ro || !f.Exported()}
		if rv.addr {
			r.addr = true
			r.ptr = ex.subPtr(s, rv.ptr, PathEl{fld: i}, site)
		} else {
			r.val = rv.val.(*StructV).f[i]
		}
		return r
	case "UnsafeAddr":
		if !ex.needValid(s, rv, site, m) {
			return nil
		}
		if !rv.addr {
			ex.vc(s, "panic", site+": reflect.Value.UnsafeAddr of unaddressable value", tb.True)
			return nil
		}
		return rv.ptr
	case "Addr":
		if !ex.needValid(s, rv, site, m) {
			return nil
		}
		if !rv.addr {
			ex.vc(s, "panic", site+": reflect.Value.Addr of unaddressable value", tb.True)
			return nil
		}
		return &ReflectValue{valid: true, typ: types.NewPointer(rv.typ), val: rv.ptr, ro: rv.ro}
	case "MethodByName":
		if !rv.valid || rv.multi != nil {
			if rv.multi != nil {
				unsup("MethodByName on multi-typed value")
			}
			ex.vc(s, "panic", site+": reflect: MethodByName on zero Value", tb.True)
			return nil
		}
		nm := ex.constString(s, args[0])
		fn := ex.findMethod(rv.typ, nm)
		if fn == nil {
			return &ReflectValue{}
		}
		return &ReflectValue{valid: true, typ: fn.Signature, method: fn, recv: ex.rvLoad(s, rv, site), ro: rv.ro}
	case "Call":
		if rv.method == nil {
			ex.vc(s, "panic", site+": reflect: Call of non-method", tb.True)
			return nil
		}
		in := args[0].(*SliceV)
		n := constInt(in.ln, "reflect Call argument count")
		cargs := []Value{rv.recv}
		for i := 0; i < n; i++ {
			cargs = append(cargs, ex.rvLoad(s, ex.rvArg(ex.sliceLoad(s, in, ex.i64(i))), site))
		}
		ret := ex.callFn(s, rv.method, cargs, nil, site)
		if s.dead {
			return nil
		}
		res := rv.method.Signature.Results()
		var outs []Value
		if res.Len() == 1 {
			outs = []Value{&ReflectValue{valid: true, typ: res.At(0).Type(), val: ret}}
		} else if res.Len() > 1 {
			for i, v := range ret.(*TupleV).v {
				outs = append(outs, &ReflectValue{valid: true, typ: res.At(i).Type(), val: v})
			}
		}
		rvt := ex.prog.ImportedPackage("reflect").Pkg.Scope().Lookup("Value").Type()
		id := ex.newArrayObj(s, rvt, outs, false)
		return &SliceV{alts: []SAlt{{g: tb.True, obj: id, off: ex.i64(0)}}, ln: ex.i64(len(outs)), cp: ex.i64(len(outs))}
	}
	unsup("reflect.Value.%s not modelled", m)
	return nil
}

// fmtOperand mimics fmt's calls of String/Error methods on operands.
func (ex *Exec) fmtOperand(s *State, iv *IfaceV, site string, depth int) {
	if depth > 3 {
		return
	}
	for _, a := range iv.alts {
		if a.typ == nil || ex.simp(s, a.g).IsFalse() {
			continue
		}
		ex.fmtValue(s, a.typ, a.v, a.g, site, depth)
	}
}

func (ex *Exec) fmtValue(s *State, t types.Type, v Value, g *Term, site string, depth int) {
	if v == nil || depth > 3 {
		return
	}
	for _, nm := range []string{"Error", "String"} {
		if fn := ex.findMethod(t, nm); fn != nil && fn.Signature.Params().Len() == 0 && fn.Signature.Results().Len() == 1 && isString(fn.Signature.Results().At(0).Type()) {
			// a method formatting its own receiver with a numeric verb does not
			// re-enter itself in fmt; do not model a recursion the verbs avoid
			onStack := false
			for _, cf := range ex.curFn {
				if cf == fn || (cf.Signature.Recv() != nil && fn.Signature.Recv() != nil && cf.Name() == fn.Name() && types.Identical(cf.Signature.Recv().Type(), fn.Signature.Recv().Type())) {
					onStack = true
				}
			}
			if onStack {
				return
			}
			cs := s.clone()
			if !ex.assume(cs, g) {
				return
			}
			ex.inFmt++
			func() {
				defer func() { ex.inFmt-- }()
				ex.callFn(cs, fn, []Value{v}, nil, site)
			}()
			// side effects of the method on the heap are kept under guard g
			if !cs.dead {
				keep := s.regs
				cs.regs = keep
				if g.IsTrue() {
					*s = *cs
				} else {
					m := ex.mergeStates(cs, s)
					m.regs = keep
					*s = *m
				}
			}
			return
		}
	}
	switch u := t.Underlying().(type) {
	case *types.Struct:
		sv, ok := v.(*StructV)
		if !ok {
			return
		}
		for i := 0; i < u.NumFields(); i++ {
			if u.Field(i).Exported() {
				ex.fmtValue(s, u.Field(i).Type(), sv.f[i], g, site, depth+1)
			}
		}
	case *types.Pointer:
		if depth == 0 {
			if _, ok := u.Elem().Underlying().(*types.Struct); ok {
				p := v.(*PtrV)
				for _, a := range ex.eff(p) {
					if a.obj == 0 {
						continue
					}
					pv := ex.loadPath(ex.obj(s, a.obj).v, a.path)
					ex.fmtValue(s, u.Elem(), pv, ex.tb.And(g, a.g), site, depth+1)
				}
			}
		}
	case *types.Slice:
		sl, ok := v.(*SliceV)
		if !ok || sl.opaque {
			return
		}
		if b, ok := u.Elem().Underlying().(*types.Basic); ok && b.Info()&types.IsNumeric != 0 && ex.findMethod(u.Elem(), "String") == nil {
			return
		}
		n := 0
		if bb, ok := ex.tb.boundsOf(sl.ln); ok {
			n = int(bb.hi)
		}
		if n > 4 {
			n = 4
		}
		for i := 0; i < n; i++ {
			in := ex.tb.Slt(ex.i64(i), sl.ln)
			if in.IsFalse() {
				break
			}
			e := ex.sliceLoad(s, sl, ex.i64(i))
			ex.fmtValue(s, u.Elem(), e, ex.tb.And(g, in), site, depth+1)
		}
	case *types.Interface:
		if iv, ok := v.(*IfaceV); ok {
			for _, a := range iv.alts {
				if a.typ != nil {
					ex.fmtValue(s, a.typ, a.v, ex.tb.And(g, a.g), site, depth+1)
				}
			}
		}
	}
}
