package main

// Semantics of SSA instructions (non-terminators).

import (
	"fmt"
	"go/constant"
	"go/token"
	"go/types"

	"golang.org/x/tools/go/ssa"
)

func (ex *Exec) constVal(s *State, c *ssa.Const) Value {
	t := c.Type()
	if c.Value == nil {
		return ex.zero(t)
	}
	tb := ex.tb
	switch u := t.Underlying().(type) {
	case *types.Basic:
		switch {
		case u.Info()&types.IsBoolean != 0:
			return tb.Bool(constant.BoolVal(c.Value))
		case u.Info()&types.IsInteger != 0:
			w := ex.intWidth(u)
			if v, ok := constant.Int64Val(constant.ToInt(c.Value)); ok {
				return tb.BV(uint64(v), w)
			}
			v, _ := constant.Uint64Val(constant.ToInt(c.Value))
			return tb.BV(v, w)
		case u.Info()&types.IsFloat != 0:
			f, _ := constant.Float64Val(c.Value)
			if u.Kind() == types.Float32 {
				f32, _ := constant.Float32Val(c.Value)
				return tb.F32(f32)
			}
			return tb.F64(f)
		case u.Info()&types.IsString != 0:
			return ex.strConst(s, constant.StringVal(c.Value))
		}
	}
	unsup("constant of type %v", t)
	return nil
}

// toI64 widens an integer term of Go type t to 64 bits.
func (ex *Exec) toI64(x *Term, t types.Type) *Term {
	if x.sort.W == 64 {
		return x
	}
	if isSigned(t) {
		return ex.tb.SignExt(x, 64)
	}
	return ex.tb.ZeroExt(x, 64)
}

func (ex *Exec) instr(s *State, in ssa.Instruction) {
	tb := ex.tb
	switch t := in.(type) {
	case *ssa.DebugRef:
		return
	case *ssa.Alloc:
		et := t.Type().(*types.Pointer).Elem()
		id := ex.newObj(s, et, ex.zero(et), t.Comment)
		if t.Heap {
			ex.addAlloc(s, ex.i64(int(ex.sizeof(et))))
		}
		s.setReg(t, ex.ptrTo(id))
	case *ssa.BinOp:
		s.setReg(t, ex.binop(s, t.Op, ex.val(s, t.X), ex.val(s, t.Y), t.X.Type(), t.Y.Type(), ex.site(in)))
	case *ssa.UnOp:
		x := ex.val(s, t.X)
		switch t.Op {
		case token.MUL:
			lv := ex.load(s, x.(*PtrV), ex.site(in))
			if lv == nil && !s.dead {
				// only reachable under an infeasible guard (e.g. element of an empty array)
				lv = ex.zero(t.Type())
			}
			s.setReg(t, lv)
		case token.NOT:
			s.setReg(t, tb.Not(x.(*Term)))
		case token.SUB:
			if isFloat(t.X.Type()) {
				s.setReg(t, tb.FpNeg(x.(*Term)))
			} else {
				s.setReg(t, tb.Neg(x.(*Term)))
			}
		case token.XOR:
			s.setReg(t, tb.BvNot(x.(*Term)))
		default:
			unsup("unop %v", t.Op)
		}
	case *ssa.Call:
		r := ex.call(s, t.Common(), ex.site(in))
		if !s.dead {
			s.setReg(t, r)
		}
	case *ssa.ChangeInterface:
		s.setReg(t, ex.val(s, t.X))
	case *ssa.ChangeType:
		s.setReg(t, ex.val(s, t.X))
	case *ssa.Convert:
		s.setReg(t, ex.convert(s, ex.val(s, t.X), t.X.Type(), t.Type(), ex.site(in)))
	case *ssa.MakeInterface:
		s.setReg(t, ex.mkIface(t.X.Type(), ex.val(s, t.X)))
	case *ssa.Extract:
		s.setReg(t, ex.val(s, t.Tuple).(*TupleV).v[t.Index])
	case *ssa.Field:
		s.setReg(t, ex.val(s, t.X).(*StructV).f[t.Field])
	case *ssa.FieldAddr:
		p := ex.val(s, t.X).(*PtrV)
		s.setReg(t, ex.subPtr(s, p, PathEl{fld: t.Field}, ex.site(in)))
	case *ssa.Index:
		x := ex.val(s, t.X)
		i := ex.toI64(ex.val(s, t.Index).(*Term), t.Index.Type())
		switch a := x.(type) {
		case *ArrayV:
			n := len(a.e)
			ex.vc(s, "panic", ex.site(in)+": index out of range", tb.Or(tb.Slt(i, ex.i64(0)), tb.Sle(ex.i64(n), i)))
			if s.dead {
				return
			}
			s.setReg(t, ex.loadPath(a, []PathEl{{idx: i}}))
		case *SliceV: // string
			ex.vc(s, "panic", ex.site(in)+": index out of range", tb.Or(tb.Slt(i, ex.i64(0)), tb.Sle(a.ln, i)))
			if s.dead {
				return
			}
			v := ex.sliceLoad(s, a, i)
			if v == nil {
				v = tb.BV(0, 8)
			}
			s.setReg(t, v)
		default:
			unsup("index of %T", x)
		}
	case *ssa.IndexAddr:
		x := ex.val(s, t.X)
		i := ex.toI64(ex.val(s, t.Index).(*Term), t.Index.Type())
		switch a := x.(type) {
		case *SliceV:
			ex.vc(s, "panic", ex.site(in)+": index out of range", tb.Or(tb.Slt(i, ex.i64(0)), tb.Sle(a.ln, i)))
			if s.dead {
				return
			}
			s.setReg(t, ex.sliceElemPtr(a, i))
		case *PtrV:
			n := int(t.X.Type().Underlying().(*types.Pointer).Elem().Underlying().(*types.Array).Len())
			ex.vc(s, "panic", ex.site(in)+": index out of range", tb.Or(tb.Slt(i, ex.i64(0)), tb.Sle(ex.i64(n), i)))
			if s.dead {
				return
			}
			s.setReg(t, ex.subPtr(s, a, PathEl{idx: i}, ex.site(in)))
		default:
			unsup("indexaddr of %T", x)
		}
	case *ssa.Lookup:
		x := ex.val(s, t.X)
		switch a := x.(type) {
		case *SliceV: // string index
			i := ex.toI64(ex.val(s, t.Index).(*Term), t.Index.Type())
			ex.vc(s, "panic", ex.site(in)+": string index out of range", tb.Or(tb.Slt(i, ex.i64(0)), tb.Sle(a.ln, i)))
			if s.dead {
				return
			}
			if a.opaque {
				s.setReg(t, tb.Fresh("strbyte", BVSort(8)))
			} else {
				v := ex.sliceLoad(s, a, i)
				if v == nil {
					v = tb.BV(0, 8)
				}
				s.setReg(t, v)
			}
		case *MapV:
			k := ex.val(s, t.Index)
			vt := t.X.Type().Underlying().(*types.Map).Elem()
			var res Value = ex.zero(vt)
			found := tb.False
			for i := len(a.entries) - 1; i >= 0; i-- {
				e := a.entries[i]
				eq := ex.valEq(s, e.k, k, t.Index.Type())
				res = ex.merge(eq, e.v, res)
				found = tb.Or(found, eq)
			}
			if t.CommaOk {
				s.setReg(t, &TupleV{v: []Value{res, found}})
			} else {
				s.setReg(t, res)
			}
		default:
			unsup("lookup on %T", x)
		}
	case *ssa.MakeMap:
		s.setReg(t, &MapV{})
	case *ssa.MapUpdate:
		m := ex.val(s, t.Map).(*MapV)
		k, v := ex.val(s, t.Key), ex.val(s, t.Value)
		// maps are only built as per-call literals here; treat the map value as mutable
		replaced := false
		for i := range m.entries {
			if eq := ex.valEq(s, m.entries[i].k, k, t.Key.Type()); eq.IsTrue() {
				m.entries[i].v = v
				replaced = true
			} else if !eq.IsFalse() {
				unsup("map update with symbolic key")
			}
		}
		if !replaced {
			m.entries = append(m.entries, MapEntry{k, v})
		}
	case *ssa.MakeSlice:
		n := ex.toI64(ex.val(s, t.Len).(*Term), t.Len.Type())
		c := ex.toI64(ex.val(s, t.Cap).(*Term), t.Cap.Type())
		et := t.Type().Underlying().(*types.Slice).Elem()
		s.setReg(t, ex.makeSlice(s, et, n, c, ex.site(in)))
	case *ssa.MakeClosure:
		b := make([]Value, len(t.Bindings))
		for i, x := range t.Bindings {
			b[i] = ex.val(s, x)
		}
		s.setReg(t, &ClosureV{fn: t.Fn.(*ssa.Function), bind: b})
	case *ssa.Slice:
		x := ex.val(s, t.X)
		var lo, hi, max *Term
		if t.Low != nil {
			lo = ex.toI64(ex.val(s, t.Low).(*Term), t.Low.Type())
		}
		if t.High != nil {
			hi = ex.toI64(ex.val(s, t.High).(*Term), t.High.Type())
		}
		if t.Max != nil {
			max = ex.toI64(ex.val(s, t.Max).(*Term), t.Max.Type())
		}
		switch a := x.(type) {
		case *SliceV:
			s.setReg(t, ex.sliceOp(s, a, lo, hi, max, ex.site(in)))
		case *PtrV:
			// pointer to array
			at := t.X.Type().Underlying().(*types.Pointer).Elem().Underlying().(*types.Array)
			n := ex.i64(int(at.Len()))
			base := &SliceV{ln: n, cp: n}
			for _, al := range ex.eff(a) {
				if al.obj != 0 && len(al.path) != 0 {
					unsup("slice of array nested in an object")
				}
				base.alts = append(base.alts, SAlt{g: al.g, obj: al.obj, off: ex.i64(0)})
			}
			s.setReg(t, ex.sliceOp(s, base, lo, hi, max, ex.site(in)))
		default:
			unsup("slice of %T", x)
		}
	case *ssa.Store:
		ex.store(s, ex.val(s, t.Addr).(*PtrV), ex.val(s, t.Val), ex.site(in))
	case *ssa.TypeAssert:
		s.setReg(t, ex.typeAssert(s, ex.val(s, t.X).(*IfaceV), t.AssertedType, t.CommaOk, ex.site(in)))
	case *ssa.RunDefers:
		return
	case *ssa.Range:
		x := ex.val(s, t.X)
		if m, ok := x.(*MapV); ok {
			s.setReg(t, &rangeIter{m: m})
			return
		}
		unsup("range over %T", x)
	case *ssa.Next:
		it := ex.val(s, t.Iter).(*rangeIter)
		if it.i < len(it.m.entries) {
			e := it.m.entries[it.i]
			it.i++
			s.setReg(t, &TupleV{v: []Value{tb.True, e.k, e.v}})
		} else {
			s.setReg(t, &TupleV{v: []Value{tb.False, nil, nil}})
		}
	case *ssa.SliceToArrayPointer:
		unsup("slice to array pointer")
	default:
		unsup("instruction %T", in)
	}
}

type rangeIter struct {
	m *MapV
	i int
}

// subPtr extends every alternative of p by one path element.
func (ex *Exec) subPtr(s *State, p *PtrV, el PathEl, site string) *PtrV {
	r := &PtrV{}
	var nilG []*Term
	for _, a := range ex.eff(p) {
		if a.obj == 0 {
			nilG = append(nilG, a.g)
			continue
		}
		np := make([]PathEl, len(a.path)+1)
		copy(np, a.path)
		np[len(a.path)] = el
		r.alts = append(r.alts, PAlt{g: a.g, obj: a.obj, path: np})
	}
	if len(nilG) > 0 {
		if debugVC {
			fmt.Printf("SUBPTRNIL %s: alts=%d nil=%d\n", site, len(p.alts), len(nilG))
			cnt := map[int]int{}
			for _, a := range p.alts {
				cnt[a.obj]++
			}
			fmt.Printf("   objects: %v\n", cnt)
			for id := range cnt {
				if id != 0 {
					if av, ok := s.heap[id]; ok {
						_ = av
					}
				}
			}
		}
		ex.vc(s, "panic", site+": nil dereference", ex.tb.Or(nilG...))
	}
	if len(r.alts) == 0 {
		return ex.nilPtr()
	}
	return r
}

func (ex *Exec) shiftCount(s *State, y *Term, yt types.Type, w int, site string) (*Term, *Term) {
	// returns count normalised to width w and the condition count >= w
	tb := ex.tb
	if isSigned(yt) {
		ex.vc(s, "panic", site+": negative shift amount", tb.Slt(y, tb.BV(0, y.sort.W)))
	}
	var big *Term
	var c *Term
	if y.sort.W > w {
		big = tb.Ule(tb.BV(uint64(w), y.sort.W), y)
		c = tb.Extract(y, w-1, 0)
	} else {
		c = tb.ZeroExt(y, w)
		big = tb.Ule(tb.BV(uint64(w), w), c)
	}
	return c, big
}

func (ex *Exec) binop(s *State, op token.Token, xv, yv Value, xt, yt types.Type, site string) Value {
	tb := ex.tb
	switch x := xv.(type) {
	case *Term:
		y := yv.(*Term)
		switch {
		case isBool(xt):
			switch op {
			case token.EQL:
				return tb.Eq(x, y)
			case token.NEQ:
				return tb.Not(tb.Eq(x, y))
			case token.AND, token.LAND:
				return tb.And(x, y)
			case token.OR, token.LOR:
				return tb.Or(x, y)
			}
		case isFloat(xt):
			switch op {
			case token.ADD:
				return tb.FpBin(OpFpAdd, x, y)
			case token.SUB:
				return tb.FpBin(OpFpSub, x, y)
			case token.MUL:
				return tb.FpBin(OpFpMul, x, y)
			case token.QUO:
				return tb.FpBin(OpFpDiv, x, y)
			case token.EQL:
				return tb.FpCmp(OpFpEq, x, y)
			case token.NEQ:
				return tb.Not(tb.FpCmp(OpFpEq, x, y))
			case token.LSS:
				return tb.FpCmp(OpFpLt, x, y)
			case token.LEQ:
				return tb.FpCmp(OpFpLe, x, y)
			case token.GTR:
				return tb.FpCmp(OpFpLt, y, x)
			case token.GEQ:
				return tb.FpCmp(OpFpLe, y, x)
			}
		case isInt(xt):
			signed := isSigned(xt)
			w := x.sort.W
			switch op {
			case token.ADD:
				return tb.Add(x, y)
			case token.SUB:
				return tb.Sub(x, y)
			case token.MUL:
				return tb.Mul(x, y)
			case token.QUO, token.REM:
				ex.vc(s, "panic", site+": integer divide by zero", tb.Eq(y, tb.BV(0, w)))
				if s.dead {
					return tb.BV(0, w)
				}
				if signed {
					if op == token.QUO {
						return tb.SDiv(x, y)
					}
					return tb.SRem(x, y)
				}
				if op == token.QUO {
					return tb.UDiv(x, y)
				}
				return tb.URem(x, y)
			case token.AND:
				return tb.BvAnd(x, y)
			case token.OR:
				return tb.BvOr(x, y)
			case token.XOR:
				return tb.BvXor(x, y)
			case token.AND_NOT:
				return tb.BvAnd(x, tb.BvNot(y))
			case token.SHL:
				c, big := ex.shiftCount(s, y, yt, w, site)
				return tb.Ite(big, tb.BV(0, w), tb.Shl(x, c))
			case token.SHR:
				c, big := ex.shiftCount(s, y, yt, w, site)
				if signed {
					return tb.Ite(big, tb.AShr(x, tb.BV(uint64(w-1), w)), tb.AShr(x, c))
				}
				return tb.Ite(big, tb.BV(0, w), tb.LShr(x, c))
			case token.EQL:
				return tb.Eq(x, y)
			case token.NEQ:
				return tb.Not(tb.Eq(x, y))
			case token.LSS:
				if signed {
					return tb.Slt(x, y)
				}
				return tb.Ult(x, y)
			case token.LEQ:
				if signed {
					return tb.Sle(x, y)
				}
				return tb.Ule(x, y)
			case token.GTR:
				if signed {
					return tb.Slt(y, x)
				}
				return tb.Ult(y, x)
			case token.GEQ:
				if signed {
					return tb.Sle(y, x)
				}
				return tb.Ule(y, x)
			}
		}
		unsup("binop %v on %v", op, xt)
	case *SliceV:
		y := yv.(*SliceV)
		if x.str {
			switch op {
			case token.ADD:
				return ex.strConcat(s, x, y, site)
			case token.EQL:
				return ex.strEq(s, x, y)
			case token.NEQ:
				return tb.Not(ex.strEq(s, x, y))
			}
			unsup("string binop %v", op)
		}
		// slice == nil
		var isNil *Term
		if ex.isNilSlice(y) {
			isNil = ex.sliceNil(x)
		} else if ex.isNilSlice(x) {
			isNil = ex.sliceNil(y)
		} else {
			unsup("slice comparison")
		}
		if op == token.EQL {
			return isNil
		}
		return tb.Not(isNil)
	case *PtrV, *IfaceV, *ClosureV, *MapV, *StructV, *ArrayV:
		eq := ex.valEq(s, xv, yv, xt)
		if op == token.EQL {
			return eq
		}
		if op == token.NEQ {
			return tb.Not(eq)
		}
	}
	unsup("binop %v on %T", op, xv)
	return nil
}

func (ex *Exec) isNilSlice(x *SliceV) bool {
	return len(x.alts) == 1 && x.alts[0].obj == 0 && x.alts[0].g.IsTrue()
}

func (ex *Exec) sliceNil(x *SliceV) *Term {
	var gs []*Term
	for _, a := range x.alts {
		if a.obj == 0 {
			gs = append(gs, a.g)
		}
	}
	return ex.tb.Or(gs...)
}

func (ex *Exec) strConcat(s *State, x, y *SliceV, site string) *SliceV {
	if x.ln.IsConst() && x.ln.val == 0 {
		return y
	}
	if y.ln.IsConst() && y.ln.val == 0 {
		return x
	}
	if !x.opaque && !y.opaque && x.ln.IsConst() && y.ln.IsConst() {
		nx, ny := int(x.ln.val), int(y.ln.val)
		elems := make([]Value, nx+ny)
		for i := 0; i < nx; i++ {
			elems[i] = ex.sliceLoad(s, x, ex.i64(i))
		}
		for i := 0; i < ny; i++ {
			elems[nx+i] = ex.sliceLoad(s, y, ex.i64(i))
		}
		id := ex.newArrayObj(s, types.Typ[types.Uint8], elems, true)
		return &SliceV{alts: []SAlt{{g: ex.tb.True, obj: id, off: ex.i64(0)}}, ln: ex.i64(nx + ny), str: true}
	}
	// opaque result; its length is the sum (bounded)
	r := &SliceV{str: true, opaque: true, ln: ex.tb.Add(x.ln, y.ln)}
	ex.addAlloc(s, r.ln)
	return r
}

// valEq compares two values of the same static type for Go equality.
func (ex *Exec) valEq(s *State, a, b Value, t types.Type) *Term {
	tb := ex.tb
	switch x := a.(type) {
	case *Term:
		y := b.(*Term)
		if x.sort.K == SFP {
			return tb.FpCmp(OpFpEq, x, y)
		}
		return tb.Eq(x, y)
	case *PtrV:
		y := b.(*PtrV)
		var ds []*Term
		for _, p := range ex.eff(x) {
			for _, q := range ex.eff(y) {
				if p.obj != q.obj || len(p.path) != len(q.path) {
					continue
				}
				conj := []*Term{p.g, q.g}
				ok := true
				for i := range p.path {
					if (p.path[i].idx == nil) != (q.path[i].idx == nil) {
						ok = false
						break
					}
					if p.path[i].idx == nil {
						if p.path[i].fld != q.path[i].fld {
							ok = false
							break
						}
					} else {
						conj = append(conj, tb.Eq(p.path[i].idx, q.path[i].idx))
					}
				}
				if ok {
					ds = append(ds, tb.And(conj...))
				}
			}
		}
		return tb.Or(ds...)
	case *IfaceV:
		y := b.(*IfaceV)
		var ds []*Term
		for _, p := range x.alts {
			for _, q := range y.alts {
				if !sameType(p.typ, q.typ) {
					continue
				}
				if p.typ == nil {
					ds = append(ds, tb.And(p.g, q.g))
					continue
				}
				ds = append(ds, tb.And(p.g, q.g, ex.valEq(s, p.v, q.v, p.typ)))
			}
		}
		return tb.Or(ds...)
	case *SliceV:
		y := b.(*SliceV)
		if x.str {
			return ex.strEq(s, x, y)
		}
		unsup("slice equality")
	case *StructV:
		y := b.(*StructV)
		st := t.Underlying().(*types.Struct)
		var cs []*Term
		for i := range x.f {
			cs = append(cs, ex.valEq(s, x.f[i], y.f[i], st.Field(i).Type()))
		}
		return tb.And(cs...)
	case *ArrayV:
		x = ex.flatten(x)
		y := ex.flatten(b.(*ArrayV))
		et := t.Underlying().(*types.Array).Elem()
		var cs []*Term
		for i := range x.e {
			cs = append(cs, ex.valEq(s, x.e[i], y.e[i], et))
		}
		return tb.And(cs...)
	case *ClosureV:
		y := b.(*ClosureV)
		xn, yn := x.fn == nil && x.native == nil, y.fn == nil && y.native == nil
		if xn || yn {
			return tb.Bool(xn && yn)
		}
		unsup("comparison of non-nil funcs")
	case *MapV:
		y := b.(*MapV)
		return tb.Bool(x.isNil && y.isNil)
	}
	unsup("equality on %T", a)
	return nil
}

func (ex *Exec) convert(s *State, v Value, from, to types.Type, site string) Value {
	tb := ex.tb
	fu, tu := from.Underlying(), to.Underlying()
	switch x := v.(type) {
	case *Term:
		switch {
		case isInt(from) && isInt(to):
			w := ex.intWidth(tu.(*types.Basic))
			if w <= x.sort.W {
				return tb.Extract(x, w-1, 0)
			}
			if isSigned(from) {
				return tb.SignExt(x, w)
			}
			return tb.ZeroExt(x, w)
		case isInt(from) && isFloat(to):
			so := F64Sort
			if tu.(*types.Basic).Kind() == types.Float32 {
				so = F32Sort
			}
			return tb.FpFromBV(x, so, isSigned(from))
		case isFloat(from) && isInt(to):
			return tb.FpToBV(x, ex.intWidth(tu.(*types.Basic)), isSigned(to))
		case isFloat(from) && isFloat(to):
			so := F64Sort
			if tu.(*types.Basic).Kind() == types.Float32 {
				so = F32Sort
			}
			return tb.FpToFp(x, so)
		case isInt(from) && isString(to):
			// rune to string: opaque content, length 1..4
			r := ex.opaqueStr(s)
			ex.restrictions++
			ex.assume(s, tb.And(tb.Sle(ex.i64(1), r.ln), tb.Sle(r.ln, ex.i64(4))))
			return r
		}
	case *SliceV:
		_, fromSlice := fu.(*types.Slice)
		_, toSlice := tu.(*types.Slice)
		switch {
		case isString(from) && toSlice:
			if b, ok := tu.(*types.Slice).Elem().Underlying().(*types.Basic); ok && b.Kind() == types.Uint8 {
				return ex.convBytesString(s, x, false, site)
			}
		case fromSlice && isString(to):
			if b, ok := fu.(*types.Slice).Elem().Underlying().(*types.Basic); ok && b.Kind() == types.Uint8 {
				return ex.convBytesString(s, x, true, site)
			}
		case isString(from) && isString(to):
			return x
		case fromSlice && toSlice:
			return x
		}
	case *PtrV:
		return x // pointer <-> unsafe.Pointer
	}
	unsup("convert %v -> %v", from, to)
	return nil
}

func (ex *Exec) implements(t types.Type, iface *types.Interface) bool {
	return types.Implements(t, iface)
}

func (ex *Exec) typeAssert(s *State, x *IfaceV, at types.Type, commaOk bool, site string) Value {
	tb := ex.tb
	it, toIface := at.Underlying().(*types.Interface)
	var okG []*Term
	var res Value
	if toIface {
		r := &IfaceV{}
		for _, a := range x.alts {
			if a.typ != nil && ex.implements(a.typ, it) {
				okG = append(okG, a.g)
				r.alts = append(r.alts, a)
			}
		}
		ok := tb.Or(okG...)
		if len(r.alts) == 0 {
			res = ex.nilIface()
		} else {
			// failing alternatives become nil under commaOk
			if !ok.IsTrue() {
				r.alts = append(r.alts, IAlt{g: tb.Not(ok)})
			}
			res = r
		}
		if commaOk {
			return &TupleV{v: []Value{res, ok}}
		}
		ex.vc(s, "panic", site+": interface conversion", tb.Not(ok))
		return res
	}
	for _, a := range x.alts {
		if a.typ != nil && types.Identical(a.typ, at) {
			okG = append(okG, a.g)
			if res == nil {
				res = a.v
			} else {
				res = ex.merge(a.g, a.v, res)
			}
		}
	}
	ok := tb.Or(okG...)
	if res == nil {
		res = ex.zero(at)
	} else if commaOk && !ok.IsTrue() {
		res = ex.merge(ok, res, ex.zero(at))
	}
	if commaOk {
		return &TupleV{v: []Value{res, ok}}
	}
	ex.vc(s, "panic", site+": interface conversion", tb.Not(ok))
	return res
}
