#!/bin/bash
# usage: tools_seed.sh <seed-id> <property> <patch.diff> <demo_test.go> "<needs>" [check args...]
# Verifies a seeded change in a scratch worktree and runs the property's quick check against it, records the outcome.
# Default: the check runs against the scratch worktree holding the change (./check ... -repo <worktree>), so that /repo is not
# disturbed while other runs use it; VP_SEED_INPLACE=1 applies the patch to /repo itself and undoes it afterwards.
set -u
id=$1; prop=$2; patch=$3; demo=$4; needs=$5; shift 5
export GOFLAGS=-mod=mod GOPROXY=off GOSUMDB=off GOTOOLCHAIN=local
d=/verif/seeded/$id; mkdir -p $d
cp "$patch" $d/patch.diff; cp "$demo" $d/demo_test.go
vt=$(mktemp -d /tmp/vtXXXX); rmdir $vt
git -C /repo worktree add -q $vt HEAD
r_apply=$(cd $vt && git apply $d/patch.diff 2>&1 && echo applied)
r_tests=$(cd $vt && go test -vet=off -count=1 ./... 2>&1 | tail -1)
cp $d/demo_test.go $vt/zz_mutant_demo_test.go
r_demo_mut=$(cd $vt && go test -vet=off -count=1 -run 'Test(Mutant)?Demo$' . 2>&1 | grep -E "^(--- FAIL|FAIL|ok|panic)" | head -1)
(cd $vt && git checkout -q -- . )
r_demo_orig=$(cd $vt && go test -vet=off -count=1 -run 'Test(Mutant)?Demo$' . 2>&1 | grep -E "^(--- FAIL|FAIL|ok|panic)" | head -1)
rm -f $vt/zz_mutant_demo_test.go
echo "apply: $r_apply | existing tests with change: $r_tests | demo with change: $r_demo_mut | demo without: $r_demo_orig"
if [ "${VP_SEED_INPLACE:-0}" = 1 ]; then
  git -C /repo worktree remove --force $vt
  git -C /repo apply $d/patch.diff
  out=$(cd /verif && timeout 3000 ./check $prop quick "$@" 2>&1); rc=$?
  git -C /repo checkout -- .
else
  (cd $vt && git apply $d/patch.diff)
  sc=$(mktemp -d /tmp/vsXXXX)
  out=$(cd /verif && timeout 3000 ./check $prop quick -repo $vt -evidence $sc -replays $sc "$@" 2>&1); rc=$?
  rm -rf $sc
  git -C /repo worktree remove --force $vt
fi
echo "$out" | grep -E "^violation|quick:|INCON|MISM" | head -5
nv=$(echo "$out" | grep -c "^VIOLATION")
VP_SEED_CHECK=$prop python3 - "$id" "${VP_SEED_BREAKS:-$prop}" "$needs" "$r_tests" "$r_demo_mut" "$r_demo_orig" "$rc" "$nv" "$*" <<'PY'
import json,sys
id,prop,needs,t,dm,do,rc,nv,extra=sys.argv[1:10]
first=[l for l in open('/dev/stdin')] if False else []
json.dump({"id":id,"breaks_property":prop,"needs_to_manifest":needs,
 "confirmed":{"existing_tests_with_change":t,"demo_with_change":dm,"demo_without_change":do},
 "check_run":{"cmd":"./check %s quick %s"%(__import__('os').environ.get('VP_SEED_CHECK',prop),extra),"exit":int(rc),"violation_lines":int(nv),"caught":int(rc)==1 and int(nv)>0}},
 open('/verif/seeded/%s/meta.json'%id,'w'),indent=1)
print("caught" if int(rc)==1 and int(nv)>0 else "MISSED", "rc",rc,"violations",nv)
PY
