#!/bin/bash
# compiles the harness natively against /repo (catches Go compile errors early)
tmp=$(mktemp -d); trap "rm -rf $tmp" EXIT
python3 - "$tmp" <<'PY'
import json,glob,os,sys,re
tmp=sys.argv[1]
ov={}
names=[]
for f in glob.glob('/verif/harness/zz_vp_*.go'):
    b=os.path.basename(f)
    if b.endswith('_sym.go'): continue
    ov['/repo/'+b]=f
    names+=re.findall(r'(?m)^func (Vp\w+)\(a \[\]int\)', open(f).read())
open(tmp+'/d.go','w').write('package rtcp\n\nvar vpDispatch = map[string]func([]int){\n'+''.join(f'\t"{n}": {n},\n' for n in sorted(names))+'}\n')
ov['/repo/zz_vp_dispatch_test.go']=tmp+'/d.go'
json.dump({"Replace":ov},open(tmp+'/ov.json','w'))
PY
cd /repo && GOFLAGS=-mod=mod GOPROXY=off GOSUMDB=off GOTOOLCHAIN=local go test -vet=off -count=1 -run '^$' -overlay $tmp/ov.json . 
