package rtcp

// C13: decoded TWCC feedback is internally consistent and chunking-invariant.

// VpC13: a[0] = packet octets (multiple of 4, >= 20), a[1] = bound on the
// packet status count; every other byte symbolic. The decoder's result is
// compared with an independent expansion of the raw bytes written from the
// transport-wide-cc draft (section 3.1).
func VpC13(a []int) {
	n, maxCount := a[0], a[1]
	b := vpBytes(n)
	vpAssume(b[0]>>6 == 2 && b[0]&0x1f == 15 && b[1] == 205 && b[2] == 0 && int(b[3]) == n/4-1)
	count := int(b[14])<<8 | int(b[15])
	vpAssume(count <= maxCount)
	var t TransportLayerCC
	err := t.Unmarshal(b)
	if err != nil {
		vpReach("end")
		return
	}
	vpReach("accepted")
	vpC13Check(b, &t, count)
	vpReach("end")
}

// vpC13Check compares a decoded packet with an independent expansion of the raw bytes.
func vpC13Check(b []byte, t *TransportLayerCC, count int) {
	n := len(b)
	// ---- independent expansion
	var types [64]uint16
	nd := 0
	pos := 20
	processed := 0
	nchunks := 0
	inside := true
	for processed < count && inside {
		if pos+2 > n {
			inside = false
		} else {
			w := uint16(b[pos])<<8 | uint16(b[pos+1])
			if w&0x8000 == 0 {
				sym := (w >> 13) & 3
				run := int(w & 0x1fff)
				if run > count-processed {
					run = count - processed // run lengths are clipped to the status count
				}
				if sym == 1 || sym == 2 {
					for j := 0; j < run; j++ {
						if nd < 64 {
							types[nd] = sym
						}
						nd++
					}
				}
				processed += run
			} else if w&0x4000 == 0 {
				for k := 0; k < 14; k++ {
					if (w>>(13-uint(k)))&1 == 1 {
						if nd < 64 {
							types[nd] = 1
						}
						nd++
					}
				}
				processed += 14
			} else {
				for k := 0; k < 7; k++ {
					s := (w >> (12 - 2*uint(k))) & 3
					if s == 1 || s == 2 {
						if nd < 64 {
							types[nd] = s
						}
						nd++
					}
				}
				processed += 7
			}
			pos += 2
			nchunks++
		}
	}
	vpAssert("C13.chunks-inside-length", inside)
	vpAssert("C13.chunk-count", len(t.PacketChunks) == nchunks)
	vpAssert("C13.delta-count", len(t.RecvDeltas) == nd && nd <= 64)
	if inside && len(t.RecvDeltas) == nd && nd <= 64 {
		dpos := pos
		fits := true
		for i := 0; i < 64; i++ {
			if i < nd && fits {
				d := t.RecvDeltas[i]
				// one assertion per delta keeps each query small
				if types[i] == 1 {
					if dpos+1 > n {
						fits = false
					} else {
						vpAssert("C13.deltas-match-statuses", d != nil && d.Type == 1 && d.Delta == 250*int64(b[dpos]))
					}
					dpos++
				} else {
					if dpos+2 > n {
						fits = false
					} else {
						vpAssert("C13.deltas-match-statuses", d != nil && d.Type == 2 && d.Delta == 250*int64(int16(uint16(b[dpos])<<8|uint16(b[dpos+1]))))
					}
					dpos += 2
				}
			}
		}
		vpAssert("C13.deltas-inside-length", fits)
	}
	vpAssert("C13.header-fields", t.PacketStatusCount == uint16(count) && t.BaseSequenceNumber == uint16(b[12])<<8|uint16(b[13]) &&
		t.ReferenceTime == uint32(b[16])<<16|uint32(b[17])<<8|uint32(b[18]) && t.FbPktCount == b[19])
	vpObserveU64("ndeltas", uint64(len(t.RecvDeltas)))
}

// VpC13_Skeleton: a[0] selects one of 17 chunk sequences (mixes of run-length,
// one-bit and two-bit vector chunks, runs longer than the remaining count,
// vectors overshooting it, chunks ending exactly at the packet end), a[1] the
// number of surplus octets after the required deltas (negative: missing
// octets); header fields and all delta octets are symbolic.
func VpC13_Skeleton(a []int) {
	chunks, count, need := vpC13Skeleton(a[0])
	hdr := vpBytes(20)
	nd := need + a[1]
	if nd < 0 {
		nd = 0
	}
	deltas := vpBytes(nd)
	b := vpC13Packet(chunks, count, hdr, deltas)
	var t TransportLayerCC
	err := t.Unmarshal(b)
	if a[1] >= 0 {
		vpAssert("C13.valid-accepted", err == nil)
	}
	if err == nil {
		vpReach("accepted")
		vpC13Check(b, &t, count)
	}
	vpReach("end")
}

// VpC13_Run: one run-length chunk with symbolic symbol and symbolic run length
// (a[0] = status count, run length up to 8191) followed by a[1] delta octets.
func VpC13_Run(a []int) {
	count := a[0]
	w := vpU16() & 0x7fff
	hdr := vpBytes(20)
	deltas := vpBytes(a[1])
	b := vpC13Packet([]uint16{w}, count, hdr, deltas)
	var t TransportLayerCC
	if t.Unmarshal(b) == nil {
		vpReach("accepted")
		vpC13Check(b, &t, count)
	}
	vpReach("end")
}

func vpC13Skeleton(id int) ([]uint16, int, int) {
	run := func(sym, n uint16) uint16 { return sym<<13 | n }
	v1 := func(s ...uint16) uint16 {
		w := uint16(0x8000)
		for i, x := range s {
			w |= x << (13 - uint(i))
		}
		return w
	}
	v2 := func(s ...uint16) uint16 {
		w := uint16(0xC000)
		for i, x := range s {
			w |= x << (12 - 2*uint(i))
		}
		return w
	}
	switch id {
	case 0:
		return nil, 0, 0
	case 1:
		return []uint16{run(1, 3)}, 3, 3
	case 2:
		return []uint16{run(2, 2)}, 2, 4
	case 3:
		return []uint16{run(0, 5), v1(1, 0, 1, 1, 0, 0, 1, 0, 1, 1, 1, 0, 0, 1)}, 19, 8
	case 4:
		return []uint16{v2(0, 1, 2, 1, 0, 2, 1)}, 7, 7
	case 5:
		return []uint16{run(2, 2), v1(1, 1, 1, 1, 1, 1, 1, 1, 1, 1, 1, 1, 1, 1), v2(2, 2, 1, 0, 0, 1, 2)}, 23, 4 + 14 + 8
	case 6:
		return []uint16{run(0, 5), run(0, 3)}, 8, 0 // chunks end exactly at the packet end
	case 7:
		return []uint16{v1(0, 0, 0, 0, 0, 0, 0, 0, 0, 0, 0, 0, 0, 0), run(0, 100)}, 114, 0
	case 8:
		return []uint16{v2(1, 2, 1, 0, 0, 0, 0)}, 3, 4 // vector overshooting the status count
	case 9:
		return []uint16{run(1, 8000)}, 2, 2 // run longer than what remains: clipped
	case 10:
		return []uint16{run(3, 4), run(1, 1)}, 5, 1 // reserved symbol 3: received without delta
	case 11:
		return []uint16{run(1, 0), run(2, 1)}, 1, 2 // empty run
	case 12:
		return []uint16{v1(1, 1, 1), v1(0, 1)}, 16, 4 // a second vector although the first has spare symbols
	case 13:
		return []uint16{v2(2, 0, 0, 0, 0, 0, 2), run(2, 3)}, 10, 2*2 + 3*2
	case 14:
		return []uint16{run(1, 1), run(1, 3)}, 3, 3 // a later run longer than what is still outstanding
	case 15:
		return []uint16{v1(1, 0, 1, 0, 1, 0, 1, 0, 1, 0, 1, 0, 1, 0), run(2, 5)}, 16, 7 + 4 // run after a vector, clipped to 2
	case 16:
		return []uint16{run(0, 2), run(1, 2), run(2, 9)}, 6, 2 + 4 // third run clipped to 2
	}
	panic("no such skeleton")
}

// two chunkings of the same status sequence (a[0] selects the pair); header
// fields and the delta octets are symbolic and shared
func vpC13Pair(id int) ([]uint16, []uint16, int) {
	run := func(sym, n uint16) uint16 { return sym<<13 | n }
	v1 := func(s []uint16) uint16 {
		w := uint16(0x8000)
		for i, x := range s {
			w |= x << (13 - uint(i))
		}
		return w
	}
	v2 := func(s []uint16) uint16 {
		w := uint16(0xC000)
		for i, x := range s {
			w |= x << (12 - 2*uint(i))
		}
		return w
	}
	switch id {
	case 0:
		return []uint16{run(1, 3)}, []uint16{v1([]uint16{1, 1, 1})}, 3
	case 1:
		return []uint16{run(2, 2), run(0, 3), run(1, 2)}, []uint16{v2([]uint16{2, 2, 0, 0, 0, 1, 1})}, 7
	case 2:
		return []uint16{v1([]uint16{1, 0, 1, 1, 0, 0, 1, 0, 1, 1, 1, 0, 0, 1})},
			[]uint16{v2([]uint16{1, 0, 1, 1, 0, 0, 1}), v2([]uint16{0, 1, 1, 1, 0, 0, 1})}, 14
	case 3:
		return []uint16{run(0, 5), run(1, 1)}, []uint16{v1([]uint16{0, 0, 0, 0, 0, 1})}, 6
	case 4:
		// a run longer than what remains is clipped to the status count
		return []uint16{run(1, 2)}, []uint16{run(1, 8000)}, 2
	}
	panic("no such pair")
}

func vpC13Packet(chunks []uint16, count int, hdr []byte, deltas []byte) []byte {
	n := 20 + 2*len(chunks) + len(deltas)
	pad := (4 - n%4) % 4
	b := make([]byte, n+pad)
	copy(b, hdr)
	b[0], b[1] = 0x8f, 205
	if pad != 0 {
		b[0] |= 0x20
		b[len(b)-1] = byte(pad)
	}
	b[2], b[3] = 0, byte(len(b)/4-1)
	b[14], b[15] = byte(count>>8), byte(count)
	for i, w := range chunks {
		b[20+2*i], b[21+2*i] = byte(w>>8), byte(w)
	}
	copy(b[20+2*len(chunks):], deltas)
	return b
}

// VpC13_Chunkings: a[0] = pair of chunkings, a[1] = surplus octets after the
// receive deltas the status sequence requires (both encodings are valid)
func VpC13_Chunkings(a []int) {
	ca, cb, count := vpC13Pair(a[0])
	need := []int{3, 6, 8, 1, 2}[a[0]]
	hdr := vpBytes(20)
	deltas := vpBytes(need + a[1])
	var ta, tb TransportLayerCC
	ea := ta.Unmarshal(vpC13Packet(ca, count, hdr, deltas))
	eb := tb.Unmarshal(vpC13Packet(cb, count, hdr, deltas))
	vpAssert("C13.chunking-same-verdict", (ea == nil) == (eb == nil))
	if ea == nil && eb == nil {
		ok := len(ta.RecvDeltas) == len(tb.RecvDeltas)
		if ok {
			for i := 0; i < len(ta.RecvDeltas); i++ {
				if *ta.RecvDeltas[i] != *tb.RecvDeltas[i] {
					ok = false
				}
			}
		}
		vpAssert("C13.chunking-invariant", ok)
		vpReach("both-accepted")
	}
	vpReach("end")
}

// VpC13_Typed: chunk kinds are fixed per case (a[2:]: 0 = run-length chunk
// with symbolic symbol and run length, 1 = one-bit vector, 2 = two-bit vector,
// all 14 payload bits symbolic, 100+e = run-length chunk with symbolic symbol
// whose clipped length is e: run-length field == e, or any value >= e when e
// is all that remains of the status count); a[0] is the status count, assumed to be
// covered by the chunks (so the decoder does not read delta octets as further
// chunks; that situation is the subject of the deficit skeletons); a[1] delta
// octets follow; header fields and delta octets are symbolic.
func VpC13_Typed(a []int) {
	b, count := vpC13TypedPacket(a)
	var t TransportLayerCC
	if t.Unmarshal(b) == nil {
		vpReach("accepted")
		vpC13Check(b, &t, count)
	}
	vpReach("end")
}

func vpC13TypedPacket(a []int) ([]byte, int) {
	count, nd := a[0], a[1]
	kinds := a[2:]
	chunks := make([]uint16, len(kinds))
	covered := 0
	for i, k := range kinds {
		w := vpU16()
		switch k {
		case 0:
			w &= 0x7fff
			run := int(w & 0x1fff)
			if run > count-covered {
				run = count - covered
			}
			if run > 0 {
				covered += run
			}
		case 1:
			w = w&0x3fff | 0x8000
			covered += 14
		case 2:
			w |= 0xc000
			covered += 7
		default:
			e := k - 100
			w &= 0x7fff
			if e > count-covered {
				e = count - covered
			}
			if e < 0 {
				e = 0
			}
			if e == count-covered {
				vpAssume(int(w&0x1fff) >= e)
			} else {
				vpAssume(int(w&0x1fff) == e)
			}
			covered += e
		}
		chunks[i] = w
	}
	vpAssume(covered >= count)
	hdr := vpBytes(20)
	deltas := vpBytes(nd)
	return vpC13Packet(chunks, count, hdr, deltas), count
}
