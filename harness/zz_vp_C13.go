package rtcp

// C13: decoded TWCC feedback is internally consistent and chunking-invariant.

// VpC13: a[0] = packet octets (multiple of 4, >= 20), a[1] = bound on the
// packet status count; every other byte symbolic. The decoder's result is
// compared with an independent expansion of the raw bytes written from the
// transport-wide-cc draft (section 3.1).
func VpC13(a []int) {
	n, maxCount := a[0], a[1]
	b := vpBytes(n)
	vpAssume(b[0]>>6 == 2 && b[0]&0x1f == 15 && b[1] == 205 && b[2] == 0 && int(b[3]) == n/4-1)
	count := int(b[14])<<8 | int(b[15])
	vpAssume(count <= maxCount)
	var t TransportLayerCC
	err := t.Unmarshal(b)
	if err != nil {
		vpReach("end")
		return
	}
	vpReach("accepted")
	// ---- independent expansion
	var types [64]uint16
	nd := 0
	pos := 20
	processed := 0
	nchunks := 0
	inside := true
	for processed < count && inside {
		if pos+2 > n {
			inside = false
		} else {
			w := uint16(b[pos])<<8 | uint16(b[pos+1])
			if w&0x8000 == 0 {
				sym := (w >> 13) & 3
				run := int(w & 0x1fff)
				if run > count-processed {
					run = count - processed // run lengths are clipped to the status count
				}
				if sym == 1 || sym == 2 {
					for j := 0; j < run; j++ {
						if nd < 64 {
							types[nd] = sym
						}
						nd++
					}
				}
				processed += run
			} else if w&0x4000 == 0 {
				for k := 0; k < 14; k++ {
					if (w>>(13-uint(k)))&1 == 1 {
						if nd < 64 {
							types[nd] = 1
						}
						nd++
					}
				}
				processed += 14
			} else {
				for k := 0; k < 7; k++ {
					s := (w >> (12 - 2*uint(k))) & 3
					if s == 1 || s == 2 {
						if nd < 64 {
							types[nd] = s
						}
						nd++
					}
				}
				processed += 7
			}
			pos += 2
			nchunks++
		}
	}
	vpAssert("C13.chunks-inside-length", inside)
	vpAssert("C13.chunk-count", len(t.PacketChunks) == nchunks)
	vpAssert("C13.delta-count", len(t.RecvDeltas) == nd && nd <= 64)
	if inside && len(t.RecvDeltas) == nd && nd <= 64 {
		dpos := pos
		ok := true
		fits := true
		for i := 0; i < 64; i++ {
			if i < nd {
				d := t.RecvDeltas[i]
				if types[i] == 1 {
					if dpos+1 > n {
						fits = false
					} else if d == nil || d.Type != 1 || d.Delta != 250*int64(b[dpos]) {
						ok = false
					}
					dpos++
				} else {
					if dpos+2 > n {
						fits = false
					} else if d == nil || d.Type != 2 || d.Delta != 250*int64(int16(uint16(b[dpos])<<8|uint16(b[dpos+1]))) {
						ok = false
					}
					dpos += 2
				}
			}
		}
		vpAssert("C13.deltas-inside-length", fits)
		vpAssert("C13.deltas-match-statuses", ok)
	}
	vpAssert("C13.header-fields", t.PacketStatusCount == uint16(count) && t.BaseSequenceNumber == uint16(b[12])<<8|uint16(b[13]) &&
		t.ReferenceTime == uint32(b[16])<<16|uint32(b[17])<<8|uint32(b[18]) && t.FbPktCount == b[19])
	vpObserveU64("ndeltas", uint64(len(t.RecvDeltas)))
	vpReach("end")
}

// two chunkings of the same status sequence (a[0] selects the pair); header
// fields and the delta octets are symbolic and shared
func vpC13Pair(id int) ([]uint16, []uint16, int) {
	run := func(sym, n uint16) uint16 { return sym<<13 | n }
	v1 := func(s []uint16) uint16 {
		w := uint16(0x8000)
		for i, x := range s {
			w |= x << (13 - uint(i))
		}
		return w
	}
	v2 := func(s []uint16) uint16 {
		w := uint16(0xC000)
		for i, x := range s {
			w |= x << (12 - 2*uint(i))
		}
		return w
	}
	switch id {
	case 0:
		return []uint16{run(1, 3)}, []uint16{v1([]uint16{1, 1, 1})}, 3
	case 1:
		return []uint16{run(2, 2), run(0, 3), run(1, 2)}, []uint16{v2([]uint16{2, 2, 0, 0, 0, 1, 1})}, 7
	case 2:
		return []uint16{v1([]uint16{1, 0, 1, 1, 0, 0, 1, 0, 1, 1, 1, 0, 0, 1})},
			[]uint16{v2([]uint16{1, 0, 1, 1, 0, 0, 1}), v2([]uint16{0, 1, 1, 1, 0, 0, 1})}, 14
	case 3:
		return []uint16{run(0, 5), run(1, 1)}, []uint16{v1([]uint16{0, 0, 0, 0, 0, 1})}, 6
	case 4:
		// a run longer than what remains is clipped to the status count
		return []uint16{run(1, 2)}, []uint16{run(1, 8000)}, 2
	}
	panic("no such pair")
}

func vpC13Packet(chunks []uint16, count int, hdr []byte, deltas []byte) []byte {
	n := 20 + 2*len(chunks) + len(deltas)
	pad := (4 - n%4) % 4
	b := make([]byte, n+pad)
	copy(b, hdr)
	b[0], b[1] = 0x8f, 205
	if pad != 0 {
		b[0] |= 0x20
		b[len(b)-1] = byte(pad)
	}
	b[2], b[3] = 0, byte(len(b)/4-1)
	b[14], b[15] = byte(count>>8), byte(count)
	for i, w := range chunks {
		b[20+2*i], b[21+2*i] = byte(w>>8), byte(w)
	}
	copy(b[20+2*len(chunks):], deltas)
	return b
}

// VpC13_Chunkings: a[0] = pair of chunkings, a[1] = number of delta octets
func VpC13_Chunkings(a []int) {
	ca, cb, count := vpC13Pair(a[0])
	hdr := vpBytes(20)
	deltas := vpBytes(a[1])
	var ta, tb TransportLayerCC
	ea := ta.Unmarshal(vpC13Packet(ca, count, hdr, deltas))
	eb := tb.Unmarshal(vpC13Packet(cb, count, hdr, deltas))
	vpAssert("C13.chunking-same-verdict", (ea == nil) == (eb == nil))
	if ea == nil && eb == nil {
		ok := len(ta.RecvDeltas) == len(tb.RecvDeltas)
		if ok {
			for i := 0; i < len(ta.RecvDeltas); i++ {
				if *ta.RecvDeltas[i] != *tb.RecvDeltas[i] {
					ok = false
				}
			}
		}
		vpAssert("C13.chunking-invariant", ok)
		vpReach("both-accepted")
	}
	vpReach("end")
}
