package rtcp

// C18: codec operations are pure and safe to run concurrently.
// The schedule quantifier is reduced to per-operation frame conditions that
// the engine decides for all inputs in the bound (see DESIGN C18): between
// vpFreeze and vpThaw every store into an object that existed at vpFreeze, and
// every store into a package-level variable, is a verification condition.

func vpAllowXRHeaders(p Packet) {
	x, ok := p.(*ExtendedReport)
	if !ok {
		return
	}
	for i := 0; i < len(x.Reports); i++ {
		switch b := x.Reports[i].(type) {
		case *LossRLEReportBlock:
			vpAllowWrite(&b.XRHeader)
		case *DuplicateRLEReportBlock:
			vpAllowWrite(&b.XRHeader)
		case *PacketReceiptTimesReportBlock:
			vpAllowWrite(&b.XRHeader)
		case *ReceiverReferenceTimeReportBlock:
			vpAllowWrite(&b.XRHeader)
		case *DLRRReportBlock:
			vpAllowWrite(&b.XRHeader)
		case *StatisticsSummaryReportBlock:
			vpAllowWrite(&b.XRHeader)
		case *VoIPMetricsReportBlock:
			vpAllowWrite(&b.XRHeader)
		case *UnknownReportBlock:
			vpAllowWrite(&b.XRHeader)
		}
	}
}

// VpC18_Ops: read-only operations on a frozen well-formed value (codec shapes)
// perform no store into it or into package state, and repeated calls in any of
// the exercised orders return identical results.
func VpC18_Ops(a []int) {
	c := vpBuild(a)
	// the documented exception: ExtendedReport.Marshal fills in its blocks' header fields
	vpFreeze()
	vpAllowXRHeaders(c.pkt)
	out1, e1 := c.pkt.Marshal()
	n1 := c.pkt.MarshalSize()
	d1 := c.pkt.DestinationSSRC()
	_ = vpStringOf(c.pkt)
	d2 := c.pkt.DestinationSSRC()
	n2 := c.pkt.MarshalSize()
	out2, e2 := c.pkt.Marshal()
	vpThaw()
	vpAssert("C18.marshal-repeatable", (e1 == nil) == (e2 == nil) && (e1 != nil || vpBytesEq(out1, out2)))
	vpAssert("C18.size-repeatable", n1 == n2)
	vpAssert("C18.dst-repeatable", vpU32sEq(d1, d2))
	// the value itself still equals the model (nothing was normalised in place)
	vpAssert("C18.value-unchanged", c.eq(c.pkt))
	vpReach("end")
}

// VpC18_Decode: decoding does not modify its input buffer nor package state
// (a[0] octets, packet-type class a[1], FMT a[2] as in VpC09).
func VpC18_Decode(a []int) {
	n := a[0]
	b := vpBytes(n)
	vpAssume(b[0]>>6 == 2 && int(b[2])<<8|int(b[3]) == n/4-1)
	if a[1] == 0 {
		vpAssume(b[1] < 200 || b[1] > 207)
	} else {
		vpAssume(int(b[1]) == a[1])
	}
	if a[2] >= 0 {
		vpAssume(int(b[0]&0x1f) == a[2])
	}
	if a[1] == 205 && n >= 16 {
		vpAssume(b[0]&0x1f != 15 || (b[14] == 0 && b[15] <= 8))
	}
	snap := append([]byte{}, b...)
	vpFreeze()
	ps, err := Unmarshal(b)
	var c CompoundPacket
	_ = c.Unmarshal(b)
	vpThaw()
	vpAssert("C18.input-unchanged", vpBytesEq(b, snap))
	if err == nil {
		// decoding the same bytes again yields an equal list
		ps2, err2 := Unmarshal(snap)
		vpAssert("C18.decode-repeatable", err2 == nil && vpPktsEq(ps, ps2))
	}
	vpReach("end")
}

// VpC18_DecodedOps: a frame of a[0] octets (type a[1], count/FMT a[2] when
// >= 0) sits at the start of a larger receive buffer; after decoding, the
// read-only operations on the decoded packets must not store into the receive
// buffer (decoders keep slices of it: payloads, profile extensions) nor into
// the decoded packets, apart from the XR block headers.
func VpC18_DecodedOps(a []int) {
	n := a[0]
	buf := vpBytes(n + 8)
	b := buf[:n]
	vpAssume(b[0]>>6 == 2 && int(b[2])<<8|int(b[3]) == n/4-1)
	if a[1] == 0 {
		vpAssume(b[1] < 200 || b[1] > 207)
	} else {
		vpAssume(int(b[1]) == a[1])
	}
	if a[2] >= 0 {
		vpAssume(int(b[0]&0x1f) == a[2])
	}
	if a[1] == 205 && n >= 16 {
		vpAssume(b[0]&0x1f != 15 || (b[14] == 0 && b[15] <= 8))
	}
	ps, err := Unmarshal(b)
	if err != nil {
		vpReach("end")
		return
	}
	snap := append([]byte{}, buf...)
	vpFreeze()
	for i := 0; i < len(ps); i++ {
		vpAllowXRHeaders(ps[i])
		_, _ = ps[i].Marshal()
		_ = ps[i].MarshalSize()
		_ = ps[i].DestinationSSRC()
		_, _ = ps[i].Marshal()
	}
	vpThaw()
	vpAssert("C18.receive-buffer-unchanged", vpBytesEq(buf, snap))
	vpReach("end")
}

// VpC18_DecodedOpsDirect: as VpC18_DecodedOps through a type's own decoder
// (a[1] = 200 SR, 201 RR, 204 APP), which accepts lengths that are not a
// multiple of four (profile extensions / data with 1..3 trailing octets).
func VpC18_DecodedOpsDirect(a []int) {
	n := a[0]
	buf := vpBytes(n + 8)
	b := buf[:n]
	var p Packet
	switch a[1] {
	case 200:
		p = new(SenderReport)
	case 201:
		p = new(ReceiverReport)
	default:
		p = new(ApplicationDefined)
	}
	if p.Unmarshal(b) != nil {
		vpReach("end")
		return
	}
	snap := append([]byte{}, buf...)
	vpFreeze()
	_, _ = p.Marshal()
	_ = p.MarshalSize()
	_ = p.DestinationSSRC()
	_, _ = p.Marshal()
	vpThaw()
	vpAssert("C18.receive-buffer-unchanged", vpBytesEq(buf, snap))
	vpReach("end")
}
