package rtcp

// C12: NACK pair helpers cover exactly the requested sequence numbers.

// vpEnumOK decides, without building a reference list, whether seq[0:cnt] is
// the enumeration prescribed by RFC 4585 6.2.1 for (id, blp): the packet ID,
// then id+i+1 for the set bits i of blp in ascending i, without gaps. With
// complete=true every set bit must be listed; otherwise seq is a prefix.
func vpEnumOK(id, blp uint16, seq *[18]uint16, cnt int, complete bool) bool {
	if cnt < 1 || cnt > 17 || seq[0] != id {
		return false
	}
	ok := true
	next := uint16(0) // lowest bit index not yet accounted for
	for j := 1; j < 18; j++ {
		if j < cnt {
			d := seq[j] - id - 1
			if d >= 16 || d < next {
				ok = false
			} else {
				// bit d set, and no set bit in [next, d)
				if blp&(1<<d) == 0 {
					ok = false
				}
				below := blp & ((1 << d) - 1)
				if below>>next != 0 {
					ok = false
				}
				next = d + 1
			}
		}
	}
	if complete && ok && next < 16 && blp>>next != 0 {
		ok = false
	}
	return ok
}

// VpC12_PacketList: all 2^32 (PacketID, bitmap) pairs.
func VpC12_PacketList(a []int) {
	// a[0] = value of the bitmap's high byte (case split); low byte and ID symbolic
	id := vpU16()
	blp := uint16(a[0])<<8 | uint16(vpU8())
	n := NackPair{PacketID: id, LostPackets: PacketBitmap(blp)}
	got := n.PacketList()
	var seq [18]uint16
	for i := 0; i < 18; i++ {
		if i < len(got) {
			seq[i] = got[i]
		}
	}
	vpAssert("C12.packetlist.equals-reference", vpEnumOK(id, blp, &seq, len(got), true))
	vpAssert("C12.packetlist.pair-unchanged", n.PacketID == id && uint16(n.LostPackets) == blp)
	vpObserveU64("len", uint64(len(got)))
	vpReach("end")
}

// VpC12_Range: early stop after the callback's (k+1)-th call (k = a[1]); the
// visited numbers must be the first calls elements of PacketList() (which
// VpC12_PacketList ties to the RFC enumeration), and no call may follow.
func VpC12_Range(a []int) {
	id := vpU16()
	blp := uint16(a[0])<<8 | uint16(vpU8())
	k := a[1]
	n := NackPair{PacketID: id, LostPackets: PacketBitmap(blp)}
	var seen [18]uint16
	calls := 0
	n.Range(func(s uint16) bool {
		if calls < 18 {
			seen[calls] = s
		}
		calls++
		return calls <= k
	})
	got := n.PacketList()
	exp := len(got)
	if k+1 < exp {
		exp = k + 1
	}
	vpAssert("C12.range.stops", calls == exp)
	ok := true
	for i := 0; i < 18; i++ {
		if i < calls && i < len(got) && seen[i] != got[i] {
			ok = false
		}
	}
	vpAssert("C12.range.same-order", ok)
	vpObserveU64("calls", uint64(calls))
	vpReach("end")
}

// VpC12_Pairs: lists of length a[0] of arbitrary sequence numbers; with a
// free x: x is in the input iff x is covered by the produced pairs.
func VpC12_Pairs(a []int) {
	n := a[0]
	seq := make([]uint16, n)
	for i := range seq {
		seq[i] = vpU16()
	}
	x := vpU16()
	pairs := NackPairsFromSequenceNumbers(seq)
	if n == 0 {
		vpAssert("C12.pairs.empty-nonnil", pairs != nil && len(pairs) == 0)
		vpReach("end")
		return
	}
	inInput := false
	for i := 0; i < n; i++ {
		inInput = inInput || seq[i] == x
	}
	covered := false
	for i := 0; i < len(pairs); i++ {
		d := x - pairs[i].PacketID
		if d == 0 {
			covered = true
		}
		if d >= 1 && d <= 16 && uint16(pairs[i].LostPackets)&(1<<(d-1)) != 0 {
			covered = true
		}
	}
	vpAssert("C12.pairs.none-missing", !inInput || covered)
	vpAssert("C12.pairs.none-extra", !covered || inInput)
	vpAssert("C12.pairs.count", len(pairs) >= 1 && len(pairs) <= n)
	vpObserveU64("npairs", uint64(len(pairs)))
	vpReach("end")
}
