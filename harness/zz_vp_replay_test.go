package rtcp

import (
	"encoding/json"
	"fmt"
	"os"
	"runtime"
	"runtime/debug"
	"testing"
	"time"
)

type vpReplay struct {
	ID      string   `json:"id"`
	Harness string   `json:"harness"`
	Args    []int    `json:"args"`
	Nondets []uint64 `json:"nondets"`
}

type vpOutcome struct {
	ID       string  `json:"id"`
	Status   string  `json:"status"`
	Name     string  `json:"name"`
	Msg      string  `json:"msg"`
	Stack    string  `json:"stack"`
	Observes []vpObs `json:"observes"`
}

func vpRunOne(r vpReplay) (out vpOutcome) {
	out.ID = r.ID
	out.Status = "ok"
	vpND = r.Nondets
	vpPos = 0
	vpObsList = nil
	defer func() {
		out.Observes = vpObsList
		if e := recover(); e != nil {
			switch x := e.(type) {
			case vpAssertFail:
				out.Status = "assert"
				out.Name = x.name
			case vpAssumeFail:
				out.Status = "assume"
			default:
				out.Status = "panic"
				out.Msg = fmt.Sprint(e)
				st := string(debug.Stack())
				if len(st) > 1500 {
					st = st[:1500]
				}
				out.Stack = st
			}
		}
	}()
	f, ok := vpDispatch[r.Harness]
	if !ok {
		out.Status = "nosuchharness"
		return
	}
	vpAllocBase = vpTotalAlloc()
	f(r.Args)
	return
}

// vpRunGuarded runs one replay under a watchdog: a run that is still going
// after 20 s, or whose live heap passes 1.5 GiB, is reported as a hang (the
// inputs are at most a few hundred octets) and the process exits.
func vpRunGuarded(r vpReplay) vpOutcome {
	done := make(chan vpOutcome, 1)
	go func() { done <- vpRunOne(r) }()
	t0 := time.Now()
	tick := time.NewTicker(20 * time.Millisecond)
	defer tick.Stop()
	for {
		select {
		case o := <-done:
			return o
		case <-tick.C:
			var m runtime.MemStats
			runtime.ReadMemStats(&m)
			if time.Since(t0) > 20*time.Second || m.HeapAlloc > 1500<<20 {
				o := vpOutcome{ID: r.ID, Status: "hang", Msg: fmt.Sprintf("still running after %.1fs with %d MiB of live heap", time.Since(t0).Seconds(), m.HeapAlloc>>20)}
				j, _ := json.Marshal(o)
				fmt.Printf("VPRESULT %s\n", j)
				os.Exit(0)
			}
		}
	}
}

func TestVPReplay(t *testing.T) {
	path := os.Getenv("VP_REPLAY_LIST")
	if path == "" {
		t.Skip("no replay list")
	}
	b, err := os.ReadFile(path)
	if err != nil {
		t.Fatal(err)
	}
	var list []vpReplay
	if err := json.Unmarshal(b, &list); err != nil {
		t.Fatal(err)
	}
	for _, r := range list {
		o := vpRunGuarded(r)
		j, _ := json.Marshal(o)
		fmt.Printf("VPRESULT %s\n", j)
	}
}
