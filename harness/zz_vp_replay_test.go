package rtcp

import (
	"encoding/json"
	"fmt"
	"os"
	"runtime/debug"
	"testing"
)

type vpReplay struct {
	ID      string   `json:"id"`
	Harness string   `json:"harness"`
	Args    []int    `json:"args"`
	Nondets []uint64 `json:"nondets"`
}

type vpOutcome struct {
	ID       string  `json:"id"`
	Status   string  `json:"status"`
	Name     string  `json:"name"`
	Msg      string  `json:"msg"`
	Stack    string  `json:"stack"`
	Observes []vpObs `json:"observes"`
}

func vpRunOne(r vpReplay) (out vpOutcome) {
	out.ID = r.ID
	out.Status = "ok"
	vpND = r.Nondets
	vpPos = 0
	vpObsList = nil
	defer func() {
		out.Observes = vpObsList
		if e := recover(); e != nil {
			switch x := e.(type) {
			case vpAssertFail:
				out.Status = "assert"
				out.Name = x.name
			case vpAssumeFail:
				out.Status = "assume"
			default:
				out.Status = "panic"
				out.Msg = fmt.Sprint(e)
				st := string(debug.Stack())
				if len(st) > 1500 {
					st = st[:1500]
				}
				out.Stack = st
			}
		}
	}()
	f, ok := vpDispatch[r.Harness]
	if !ok {
		out.Status = "nosuchharness"
		return
	}
	f(r.Args)
	return
}

func TestVPReplay(t *testing.T) {
	path := os.Getenv("VP_REPLAY_LIST")
	if path == "" {
		t.Skip("no replay list")
	}
	b, err := os.ReadFile(path)
	if err != nil {
		t.Fatal(err)
	}
	var list []vpReplay
	if err := json.Unmarshal(b, &list); err != nil {
		t.Fatal(err)
	}
	for _, r := range list {
		o := vpRunOne(r)
		j, _ := json.Marshal(o)
		fmt.Printf("VPRESULT %s\n", j)
	}
}
