package rtcp

// Harness primitives, symbolic side: body-less declarations intercepted by the
// gosym engine. The native twin is zz_vp_prims_native.go.

func vpU8() uint8
func vpU16() uint16
func vpU32() uint32
func vpU64() uint64
func vpBool() bool
func vpF32() float32
func vpBytes(n int) []byte
func vpAssume(c bool)
func vpAssert(name string, c bool)
func vpReach(name string)
func vpKnown(id string, site string, pred bool)
func vpAllocBytes() int
func vpFreeze()
func vpThaw()
func vpAllowWrite(p interface{})
func vpObserveU64(name string, v uint64)
func vpObserveBool(name string, v bool)
func vpObserveBytes(name string, b []byte)
