package rtcp

// C01: decoding arbitrary bytes never panics, hangs or over-allocates.
// Panics of the real code are the engine's implicit assertions; loops are
// unrolled under an unwinding assertion; allocation is checked explicitly.

func vpDecodeEntry(e int, b []byte) error {
	switch e {
	case 0:
		_, err := Unmarshal(b)
		return err
	case 1:
		return new(SenderReport).Unmarshal(b)
	case 2:
		return new(ReceiverReport).Unmarshal(b)
	case 3:
		return new(SourceDescription).Unmarshal(b)
	case 4:
		return new(Goodbye).Unmarshal(b)
	case 5:
		return new(ApplicationDefined).Unmarshal(b)
	case 6:
		return new(TransportLayerNack).Unmarshal(b)
	case 7:
		return new(RapidResynchronizationRequest).Unmarshal(b)
	case 8:
		return new(TransportLayerCC).Unmarshal(b)
	case 9:
		return new(CCFeedbackReport).Unmarshal(b)
	case 10:
		return new(PictureLossIndication).Unmarshal(b)
	case 11:
		return new(SliceLossIndication).Unmarshal(b)
	case 12:
		return new(ReceiverEstimatedMaximumBitrate).Unmarshal(b)
	case 13:
		return new(FullIntraRequest).Unmarshal(b)
	case 14:
		return new(ExtendedReport).Unmarshal(b)
	case 15:
		return new(RawPacket).Unmarshal(b)
	case 16:
		return new(CompoundPacket).Unmarshal(b)
	case 17:
		return new(Header).Unmarshal(b)
	case 18:
		return new(ReceptionReport).Unmarshal(b)
	case 19:
		return new(SourceDescriptionChunk).Unmarshal(b)
	case 20:
		return new(SourceDescriptionItem).Unmarshal(b)
	case 21:
		return new(RunLengthChunk).Unmarshal(b)
	case 22:
		return new(StatusVectorChunk).Unmarshal(b)
	case 23:
		return new(RecvDelta).Unmarshal(b)
	}
	return nil
}

// VpC01_Datagram: the datagram entry points (a[0] = 0 rtcp.Unmarshal, 16
// CompoundPacket.Unmarshal) on a[1] octets; a[2:] fixes the length fields of
// the leading frames so that frame offsets are concrete (every composition of
// the datagram into frames plus an arbitrary tail is a case).
func VpC01_Datagram(a []int) {
	e, n := a[0], a[1]
	b := vpBytes(n)
	off := 0
	for _, w := range a[2:] {
		if off+4 <= n {
			vpAssume(b[off+2] == 0 && int(b[off+3]) == w)
		}
		if off+16 <= n {
			// TWCC frames: bounded packet status count (see the TWCC bound)
			vpAssume(b[off+1] != 205 || b[off]&0x1f != 15 || (b[off+14] == 0 && b[off+15] <= 8))
		}
		off += 4 * (w + 1)
	}
	err := vpDecodeEntry(e, b)
	vpAssert("C01.alloc-bounded", vpAllocBytes() <= 4<<20+64*n)
	vpObserveBool("err", err != nil)
	vpReach("end")
}

// VpC01_Decode: a[0] = entry point, a[1] = buffer length; all contents symbolic.
func VpC01_Decode(a []int) {
	e, n := a[0], a[1]
	b := vpBytes(n)
	if e == 8 && n >= 16 {
		// bounded part of the TWCC claim: packet status count <= a[2] (default 8)
		maxc := 8
		if len(a) > 2 {
			maxc = a[2]
		}
		vpAssume(int(b[14])<<8|int(b[15]) <= maxc)
	}
	err := vpDecodeEntry(e, b)
	vpAssert("C01.alloc-bounded", vpAllocBytes() <= 4<<20+64*n)
	vpObserveBool("err", err != nil)
	vpReach("end")
}

// VpC01_TWCCTyped: TransportLayerCC.Unmarshal on packets whose chunk kinds are
// fixed per case and whose chunk payload bits, header fields and delta octets
// are symbolic (arguments as VpC13_Typed).
func VpC01_TWCCTyped(a []int) {
	b, _ := vpC13TypedPacket(a)
	err := new(TransportLayerCC).Unmarshal(b)
	vpAssert("C01.alloc-bounded", vpAllocBytes() <= 4<<20+64*len(b))
	vpObserveBool("err", err != nil)
	vpReach("end")
}

// VpC01_TWCCWrap: a TransportLayerCC packet with packet status count 65535
// whose chunk area repeats a[0] times the sequence "8 run-length chunks of
// 8191 received packets, one all-ones one-bit vector chunk"; header fields
// other than type, length and status count are symbolic. The memory clause
// of the property is asserted (the decoder's 16-bit counter of processed
// statuses must not let the chunk loop start over).
func VpC01_TWCCWrap(a []int) {
	var chunks []uint16
	for k := 0; k < a[0]; k++ {
		for i := 0; i < 8; i++ {
			chunks = append(chunks, 1<<13|8191)
		}
		chunks = append(chunks, 0xbfff)
	}
	hdr := vpBytes(20)
	b := vpC13Packet(chunks, 65535, hdr, nil)
	err := new(TransportLayerCC).Unmarshal(b)
	vpAssert("C01.alloc-bounded", vpAllocBytes() <= 4<<20+64*len(b))
	vpObserveBool("err", err != nil)
	vpReach("end")
}

// VpC01_XRBlock: ExtendedReport.Unmarshal on a[1] octets whose first report
// block has type a[0]; everything else symbolic (the block decoders are driven
// by reflection over the block structs, so fixing the type keeps the control
// flow of one block kind per case and allows longer buffers).
func VpC01_XRBlock(a []int) {
	n := a[1]
	b := vpBytes(n)
	if n > 8 {
		vpAssume(int(b[8]) == a[0])
	}
	err := new(ExtendedReport).Unmarshal(b)
	vpAssert("C01.alloc-bounded", vpAllocBytes() <= 4<<20+64*n)
	vpObserveBool("err", err != nil)
	vpReach("end")
}
