package rtcp

// C02, C03, C05, C10 on model values built by vpBuild (a[0] = kind, a[1:] = shape).

func vpHdrOK(out []byte, pt, cnt uint8) bool {
	return len(out) >= 4 && len(out)%4 == 0 && out[0]>>6 == 2 && out[1] == pt && out[0]&0x1f == cnt &&
		int(out[2])<<8|int(out[3]) == len(out)/4-1
}

// VpC02: encode-then-decode is the identity (own decoder, datagram decoder, re-marshal).
func VpC02(a []int) {
	c := vpBuild(a)
	vpC02Known(a, c)
	out, err := c.pkt.Marshal()
	vpAssert("C02.marshal-ok", err == nil)
	if err != nil {
		vpReach("end")
		return
	}
	vpObserveBytes("out", out)
	// (i) the type's own decoder
	d := c.fresh()
	e1 := d.Unmarshal(out)
	vpAssert("C02.own-decode-ok", e1 == nil)
	if e1 == nil {
		vpAssert("C02.own-decode-equal", c.eq(d))
	}
	// (ii) the datagram decoder returns the same concrete type and value
	ps, e2 := Unmarshal(out)
	vpAssert("C02.datagram-decode-ok", e2 == nil && len(ps) == 1)
	if e2 == nil && len(ps) == 1 {
		vpAssert("C02.datagram-same-type", c.same(ps[0]))
		if c.same(ps[0]) {
			vpAssert("C02.datagram-equal", c.eq(ps[0]))
		}
		// (iii) re-marshalling the decoded packets reproduces the bytes
		out2, e3 := Marshal(ps)
		vpAssert("C02.remarshal-same-bytes", e3 == nil && vpBytesEq(out2, out))
	}
	vpReach("end")
}

// VpC03: Marshal emits the RFC wire layout.
func VpC03(a []int) {
	c := vpBuild(a)
	vpC03Known(a, c)
	out, err := c.pkt.Marshal()
	vpAssert("C03.marshal-ok", err == nil)
	if err == nil {
		vpAssert("C03.length", len(out) == len(c.ref))
		vpAssert("C03.rfc-layout", vpBytesEqMasked(out, c.ref, c.mask))
		vpObserveBytes("out", out)
	}
	vpReach("end")
}

// VpC05: output is well-framed and its length equals MarshalSize.
func VpC05(a []int) {
	c := vpBuild(a)
	vpC05Known(a, c)
	out, err := c.pkt.Marshal()
	if err == nil && len(out) <= 65536*4 {
		vpAssert("C05.len-equals-marshalsize", len(out) == c.pkt.MarshalSize())
		vpAssert("C05.multiple-of-four", len(out)%4 == 0)
		vpAssert("C05.header-framing", vpHdrOK(out, c.pt, c.cnt))
		switch p := c.pkt.(type) {
		case *SenderReport:
			vpAssert("C05.header-accessor", vpHdrAgrees(p.Header(), out))
		case *ReceiverReport:
			vpAssert("C05.header-accessor", vpHdrAgrees(p.Header(), out))
		case *SourceDescription:
			vpAssert("C05.header-accessor", vpHdrAgrees(p.Header(), out))
		case *Goodbye:
			vpAssert("C05.header-accessor", vpHdrAgrees(p.Header(), out))
		case *TransportLayerNack:
			vpAssert("C05.header-accessor", vpHdrAgrees(p.Header(), out))
		case *RapidResynchronizationRequest:
			vpAssert("C05.header-accessor", vpHdrAgrees(p.Header(), out))
		case *PictureLossIndication:
			vpAssert("C05.header-accessor", vpHdrAgrees(p.Header(), out))
		case *SliceLossIndication:
			vpAssert("C05.header-accessor", vpHdrAgrees(p.Header(), out))
		case *FullIntraRequest:
			vpAssert("C05.header-accessor", vpHdrAgrees(p.Header(), out))
		case *ReceiverEstimatedMaximumBitrate:
			vpAssert("C05.header-accessor", vpHdrAgrees(p.Header(), out))
		case *CCFeedbackReport:
			vpAssert("C05.header-accessor", vpHdrAgrees(p.Header(), out))
			vpAssert("C05.len-accessor", p.Len() == len(out))
		case *TransportLayerCC:
			vpAssert("C05.len-accessor", int(p.Len()) == len(out))
		case *RawPacket:
			vpAssert("C05.header-accessor", vpHdrAgrees(p.Header(), out))
		}
		vpObserveU64("len", uint64(len(out)))
	}
	vpReach("end")
}

func vpHdrAgrees(h Header, out []byte) bool {
	return len(out) >= 4 && h.Padding == (out[0]&0x20 != 0) && h.Count == out[0]&0x1f && uint8(h.Type) == out[1] && h.Length == uint16(out[2])<<8|uint16(out[3])
}

// VpC10: DestinationSSRC lists exactly the SSRCs the packet refers to, before
// and after an encode/decode round trip.
func VpC10(a []int) {
	c := vpBuild(a)
	if p, ok := c.pkt.(*CCFeedbackReport); ok {
		single := false
		for i := range p.ReportBlocks {
			if len(p.ReportBlocks[i].MetricBlocks) == 1 {
				single = true
			}
		}
		// decoding loses a block's only metric block and then mis-frames the next block
		vpKnown("KF-C10-ccfb-single-metric", "C10.decoded", single)
	}
	got := c.pkt.DestinationSSRC()
	vpAssert("C10.constructed", vpU32sEq(got, c.dst))
	out, err := c.pkt.Marshal()
	if err == nil {
		d := c.fresh()
		if d.Unmarshal(out) == nil {
			vpAssert("C10.decoded", vpU32sEq(d.DestinationSSRC(), c.dst))
		}
	}
	vpObserveU64("n", uint64(len(got)))
	vpReach("end")
}

// Known findings (ids must be listed in /verif/known_findings.json with status
// "known", otherwise the predicate is ignored). Each predicate names exactly
// the inputs that fail; everything outside it is still verified.
func vpC02Known(a []int, c vpCase) {
	// SLI is marshalled with PT 205/FMT 2, which the datagram decoder does not map to SliceLossIndication
	vpKnown("KF-C02-sli-dispatch", "C02.datagram-same-type", a[0] == vpKSLI)
	if p, ok := c.pkt.(*CCFeedbackReport); ok {
		single, wrap := false, false
		for i := range p.ReportBlocks {
			n := len(p.ReportBlocks[i].MetricBlocks)
			if n == 1 {
				single = true
			}
			if n >= 2 && int(p.ReportBlocks[i].BeginSequence)+n-1 > 65535 {
				wrap = true
			}
		}
		// num_reports is written as n-1 and 0 is read back as "no metric blocks"
		vpKnown("KF-C02-ccfb-single-metric", "C02.", single)
		// blocks whose sequence range crosses 65535->0 are rejected by the decoder
		vpKnown("KF-C02-ccfb-seq-wrap", "C02.", wrap)
	}
}

func vpC03Known(a []int, c vpCase) {
	// RFC 4585 6.3.2 assigns PT 206 (PSFB) to SLI; the library emits 205 (pinned by its tests)
	vpKnown("KF-C03-sli-pt205", "C03.rfc-layout", a[0] == vpKSLI)
}

func vpC05Known(a []int, c vpCase) {
	vpKnown("KF-C05-sli-pt205", "C05.header-framing", a[0] == vpKSLI)
	// RLE report blocks with an odd number of 16-bit chunks are not padded
	vpKnown("KF-C05-xr-odd-rle", "C05.", a[0] == vpKXR && len(a) > 1 && (a[1] == 10 || a[1] == 11))
}
