package rtcp

import "math"

// C14: REMB bitrate coding is exact, monotone and saturating.

func vpREMBPacket(exp uint8, man uint32, nssrc int) []byte {
	b := make([]byte, 20+4*nssrc)
	b[0], b[1] = 0x8f, 206
	b[2], b[3] = 0, byte(len(b)/4-1)
	b[4], b[5], b[6], b[7] = 1, 2, 3, 4
	b[12], b[13], b[14], b[15] = 'R', 'E', 'M', 'B'
	b[16] = byte(nssrc)
	b[17] = exp<<2 | byte(man>>16)
	b[18] = byte(man >> 8)
	b[19] = byte(man)
	return b
}

// bits of the float32 man * 2^exp (exact: man has at most 18 significant bits)
func vpRefREMBBits(exp uint8, man uint32) uint32 {
	if man == 0 {
		return 0
	}
	p := uint32(0)
	for i := uint32(0); i < 18; i++ {
		if man&(1<<i) != 0 {
			p = i
		}
	}
	return (uint32(exp)+p+127)<<23 | (man<<(23-p))&0x7FFFFF
}

// VpC14_Decode: a[0] = exponent (all 64), mantissa symbolic: 2^18 pairs per query.
func VpC14_Decode(a []int) {
	exp := uint8(a[0])
	man := vpU32()
	vpAssume(man < 1<<18)
	// a zero mantissa decodes to 2^(exp+23) instead of 0 (pinned by
	// TestReceiverEstimatedMaximumBitrateOverflow)
	vpKnown("KF-C14-mantissa-zero", "C14.decode-exact", man == 0)
	var p ReceiverEstimatedMaximumBitrate
	err := p.Unmarshal(vpREMBPacket(exp, man, 0))
	vpAssert("C14.decode-ok", err == nil)
	if err == nil {
		vpAssert("C14.decode-exact", math.Float32bits(p.Bitrate) == vpRefREMBBits(exp, man))
		vpObserveU64("bits", uint64(math.Float32bits(p.Bitrate)))
	}
	vpReach("end")
}

// reference encoder on float32 bits (finite, non-negative): largest
// representable value (18-bit mantissa, minimal exponent) not exceeding x,
// saturating at 0x3FFFF * 2^63.
func vpRefREMBEnc(bits uint32) (uint8, uint32) {
	e := int(bits>>23) - 127
	f := bits & 0x7FFFFF
	if bits>>23 == 0 || e < 0 {
		return 0, 0 // below 1
	}
	if e <= 17 {
		return 0, uint32(1)<<uint(e) | f>>(23-uint(e))
	}
	if e > 80 {
		return 63, 0x3FFFF
	}
	return uint8(e - 17), 1<<17 | f>>6
}

// VpC14_Encode: a[0] = IEEE exponent field of the bitrate (0..254), sign
// positive, fraction symbolic: all finite non-negative float32 over 255 cases.
func VpC14_Encode(a []int) {
	frac := vpU32() & 0x7FFFFF
	bits := uint32(a[0])<<23 | frac
	x := math.Float32frombits(bits)
	p := ReceiverEstimatedMaximumBitrate{SenderSSRC: 1, Bitrate: x}
	out, err := p.Marshal()
	vpAssert("C14.encode-ok", err == nil && len(out) == 20)
	if err == nil && len(out) == 20 {
		re, rm := vpRefREMBEnc(bits)
		exp := out[17] >> 2
		man := uint32(out[17]&3)<<16 | uint32(out[18])<<8 | uint32(out[19])
		vpAssert("C14.encode-largest-below", exp == re && man == rm)
		vpObserveBytes("out", out)
	}
	vpReach("end")
}

// VpC14_Negative: a[0] = exponent field; negative bitrates are rejected (-0 is not negative).
func VpC14_Negative(a []int) {
	frac := vpU32() & 0x7FFFFF
	bits := uint32(1)<<31 | uint32(a[0])<<23 | frac
	vpAssume(bits != 1<<31)
	p := ReceiverEstimatedMaximumBitrate{Bitrate: math.Float32frombits(bits)}
	out, err := p.Marshal()
	vpAssert("C14.negative-rejected", err != nil && out == nil)
	vpReach("end")
}

// VpC14_RefProps: properties of the encoding function, proved on the reference
// (VpC14_Encode ties the implementation to it for every finite non-negative float32).
func VpC14_RefProps(a []int) {
	xb, yb := vpU32(), vpU32()
	vpAssume(xb < 0x7F800000 && yb < 0x7F800000) // finite, non-negative
	ex, mx := vpRefREMBEnc(xb)
	ey, my := vpRefREMBEnc(yb)
	// monotone: x <= y  =>  enc(x) <= enc(y) (normal form makes the order lexicographic)
	if xb <= yb {
		vpAssert("C14.monotone", ex < ey || (ex == ey && mx <= my))
	}
	// normal form: minimal exponent
	vpAssert("C14.minimal-exponent", ex == 0 || mx >= 1<<17)
	// dec(enc(x)) <= x, equality iff representable, gap below one unit of the mantissa
	db := vpRefREMBBits(ex, mx)
	vpAssert("C14.decode-below", db <= xb)
	sat := ex == 63 && mx == 0x3FFFF
	if !sat {
		var nb uint32
		if mx+1 == 1<<18 {
			nb = vpRefREMBBits(ex+1, 1<<17)
		} else {
			nb = vpRefREMBBits(ex, mx+1)
		}
		vpAssert("C14.gap-below-one-unit", xb < nb)
	}
	vpReach("end")
}

// VpC14_Count: the SSRC count octet equals the number of SSRC entries (a[0] entries).
func VpC14_Count(a []int) {
	n := a[0]
	p := ReceiverEstimatedMaximumBitrate{SenderSSRC: vpU32(), Bitrate: 1000}
	for i := 0; i < n; i++ {
		p.SSRCs = append(p.SSRCs, vpU32())
	}
	out, err := p.Marshal()
	vpAssert("C14.count-ok", err == nil && len(out) == 20+4*n)
	if err == nil && len(out) == 20+4*n {
		vpAssert("C14.count-octet", int(out[16]) == n)
		var q ReceiverEstimatedMaximumBitrate
		e2 := q.Unmarshal(out)
		vpAssert("C14.count-roundtrip", e2 == nil && vpU32sEq(q.SSRCs, p.SSRCs))
	}
	vpReach("end")
}
