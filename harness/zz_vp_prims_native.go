package rtcp

// Harness primitives, native side: nondeterministic inputs are read from a
// replay vector; assertions and assumptions panic with marker values.

import (
	"math"
	"runtime"
)

type vpObs struct {
	Name string   `json:"name"`
	Vals []uint64 `json:"vals"`
}

type vpAssertFail struct{ name string }
type vpAssumeFail struct{}

var vpND []uint64
var vpPos int
var vpObsList []vpObs

func vpNext() uint64 {
	if vpPos >= len(vpND) {
		vpPos++
		return 0
	}
	v := vpND[vpPos]
	vpPos++
	return v
}

func vpU8() uint8   { return uint8(vpNext()) }
func vpU16() uint16 { return uint16(vpNext()) }
func vpU32() uint32 { return uint32(vpNext()) }
func vpU64() uint64 { return vpNext() }
func vpBool() bool  { return vpNext() != 0 }
func vpF32() float32 {
	return math.Float32frombits(uint32(vpNext()))
}
func vpBytes(n int) []byte {
	b := make([]byte, n)
	for i := range b {
		b[i] = byte(vpNext())
	}
	return b
}
func vpAssume(c bool) {
	if !c {
		panic(vpAssumeFail{})
	}
}
func vpAssert(name string, c bool) {
	if !c {
		panic(vpAssertFail{name})
	}
}
func vpReach(name string)                       {}
func vpKnown(id string, site string, pred bool) {}

// vpAllocBytes: bytes allocated by the Go runtime since the replay started
// (cumulative, not live: the property bounds what a decode may use).
var vpAllocBase uint64

func vpTotalAlloc() uint64 {
	var m runtime.MemStats
	runtime.ReadMemStats(&m)
	return m.TotalAlloc
}
func vpAllocBytes() int { return int(vpTotalAlloc() - vpAllocBase) }

func vpFreeze()                                 {}
func vpThaw()                                   {}
func vpAllowWrite(p interface{})                {}
func vpObserveU64(name string, v uint64) {
	vpObsList = append(vpObsList, vpObs{name, []uint64{v}})
}
func vpObserveBool(name string, v bool) {
	x := uint64(0)
	if v {
		x = 1
	}
	vpObsList = append(vpObsList, vpObs{name, []uint64{x}})
}
func vpObserveBytes(name string, b []byte) {
	vals := []uint64{uint64(len(b))}
	for i := 0; i < len(b) && i < 64; i++ {
		vals = append(vals, uint64(b[i]))
	}
	vpObsList = append(vpObsList, vpObs{name, vals})
}
