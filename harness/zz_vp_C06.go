package rtcp

// C06: datagram decoding splits at length fields, is local, and is all-or-nothing.

// independent frame walker over the raw bytes (RFC 3550 6.1: version 2, length
// in 32-bit words minus one); returns the number of frames, or -1
func vpWalkFrames(b []byte) int {
	n := 0
	off := 0
	for off < len(b) {
		if len(b)-off < 4 || b[off]>>6 != 2 {
			return -1
		}
		l := 4 * (int(b[off+2])<<8 | int(b[off+3]) + 1)
		if l > len(b)-off {
			return -1
		}
		off += l
		n++
	}
	if n == 0 {
		return -1
	}
	return n
}

func vpAssumeFrames(b []byte, words []int) int {
	off := 0
	for _, w := range words {
		if off+4 <= len(b) {
			vpAssume(b[off+2] == 0 && int(b[off+3]) == w)
		}
		off += 4 * (w + 1)
	}
	return off
}

// VpC06_Framing: a[0] = datagram length, a[1:] = length fields of the leading
// frames (so offsets are concrete); all other bytes symbolic, including the
// versions, types and whatever follows the listed frames.
func VpC06_Framing(a []int) {
	n := a[0]
	b := vpBytes(n)
	vpAssumeFrames(b, a[1:])
	for i := 0; i+15 < n; i++ {
		// keep TWCC frames inside the bounded status count
		_ = i
	}
	ps, err := Unmarshal(b)
	w := vpWalkFrames(b)
	if err == nil {
		vpAssert("C06.success-implies-framed", w > 0 && len(ps) == w)
	}
	if w < 0 {
		vpAssert("C06.misframed-rejected", err != nil && ps == nil)
	}
	if err != nil {
		vpAssert("C06.error-no-packets", ps == nil)
	}
	vpObserveBool("err", err != nil)
	vpReach("end")
}

// VpC06_Local: two well-framed frames of a[0] and a[1] octets with symbolic
// types and contents: Unmarshal(a||b) is Unmarshal(a) followed by Unmarshal(b).
func VpC06_Local(a []int) {
	la, lb := a[0], a[1]
	x := vpBytes(la)
	y := vpBytes(lb)
	vpAssume(x[0]>>6 == 2 && int(x[2])<<8|int(x[3]) == la/4-1)
	vpAssume(y[0]>>6 == 2 && int(y[2])<<8|int(y[3]) == lb/4-1)
	if a[2] != 0 {
		vpAssume(int(x[1]) == a[2])
	}
	if a[3] != 0 {
		vpAssume(int(y[1]) == a[3])
	}
	// TWCC frames: bounded status count
	if la >= 16 {
		vpAssume(x[1] != 205 || x[0]&0x1f != 15 || (x[14] == 0 && x[15] <= 8))
	}
	if lb >= 16 {
		vpAssume(y[1] != 205 || y[0]&0x1f != 15 || (y[14] == 0 && y[15] <= 8))
	}
	xy := make([]byte, 0, la+lb)
	xy = append(xy, x...)
	xy = append(xy, y...)
	pj, ej := Unmarshal(xy)
	px, ex := Unmarshal(append([]byte{}, x...))
	py, ey := Unmarshal(append([]byte{}, y...))
	vpAssert("C06.joint-iff-both", (ej == nil) == (ex == nil && ey == nil))
	if ej != nil {
		vpAssert("C06.all-or-nothing", pj == nil)
	}
	if ej == nil && ex == nil && ey == nil {
		vpAssert("C06.one-per-frame", len(pj) == 2 && len(px) == 1 && len(py) == 1)
		if len(pj) == 2 && len(px) == 1 && len(py) == 1 {
			vpAssert("C06.local-first", vpPktEq(pj[0], px[0]))
			vpAssert("C06.local-second", vpPktEq(pj[1], py[0]))
		}
	}
	vpObserveBool("err", ej != nil)
	vpReach("end")
}

// VpC06_Empty: the empty datagram is an error.
func VpC06_Empty(a []int) {
	ps, err := Unmarshal([]byte{})
	vpAssert("C06.empty-rejected", err != nil && ps == nil)
	ps2, err2 := Unmarshal(nil)
	vpAssert("C06.nil-rejected", err2 != nil && ps2 == nil)
	vpReach("end")
}
