package rtcp

import "math"

// float32 value man * 2^exp with the mantissa's leading one at bit p
func vpF32Of(man uint32, exp uint8, p uint32) float32 {
	bits := (uint32(exp)+p+127)<<23 | (man<<(23-p))&0x7FFFFF
	return math.Float32frombits(bits)
}

// float32 value man * 2^exp built from its IEEE-754 fields (man != 0, < 2^18)
func vpPow2F32(man uint32, exp uint8) float32 {
	p := uint32(0)
	for i := uint32(0); i < 18; i++ {
		if man&(1<<i) != 0 {
			p = i
		}
	}
	bits := (uint32(exp)+p+127)<<23 | (man<<(23-p))&0x7FFFFF
	return math.Float32frombits(bits)
}

// ---------------------------------------------------------------- TWCC

// A skeleton fixes the per-packet status sequence and its chunking; header
// fields and delta values stay symbolic.
type vpTWCCChunk struct {
	kind int      // 0 run length, 1 one-bit vector, 2 two-bit vector
	sym  []uint16 // run: {symbol, runLength}; vector: 14 or 7 symbols
}

func vpTWCCSkeleton(id int) ([]vpTWCCChunk, int) {
	v1a := []uint16{1, 0, 1, 1, 0, 0, 1, 0, 1, 1, 1, 0, 0, 1}
	v1b := []uint16{1, 1, 1, 1, 1, 1, 1, 1, 1, 1, 1, 1, 1, 1}
	v1z := []uint16{0, 0, 0, 0, 0, 0, 0, 0, 0, 0, 0, 0, 0, 0}
	v2a := []uint16{0, 1, 2, 1, 0, 2, 1}
	v2b := []uint16{2, 2, 1, 0, 0, 1, 2}
	switch id {
	case 0:
		return nil, 0
	case 1:
		return []vpTWCCChunk{{0, []uint16{1, 3}}}, 3
	case 2:
		return []vpTWCCChunk{{0, []uint16{0, 5}}, {1, v1a}}, 19
	case 3:
		return []vpTWCCChunk{{2, v2a}}, 7
	case 4:
		return []vpTWCCChunk{{0, []uint16{2, 2}}, {1, v1b}, {2, v2b}}, 23
	case 5:
		// chunks end exactly at the packet end: no deltas, no padding
		return []vpTWCCChunk{{0, []uint16{0, 5}}, {0, []uint16{0, 3}}}, 8
	case 6:
		return []vpTWCCChunk{{1, v1z}, {0, []uint16{0, 100}}}, 114
	case 7:
		// vector overshooting the status count (count 3 of 7 symbols)
		return []vpTWCCChunk{{2, []uint16{1, 2, 1, 0, 0, 0, 0}}}, 3
	case 8:
		return []vpTWCCChunk{{0, []uint16{1, 1}}}, 1
	}
	panic("unknown skeleton")
}

// statuses expands the skeleton into the per-packet status sequence
func vpTWCCStatuses(sk []vpTWCCChunk) []uint16 {
	var out []uint16
	for _, c := range sk {
		if c.kind == 0 {
			for i := 0; i < int(c.sym[1]); i++ {
				out = append(out, c.sym[0])
			}
		} else {
			out = append(out, c.sym...)
		}
	}
	return out
}

func vpBuildTWCC(a []int) vpCase {
	sk, count := vpTWCCSkeleton(a[1])
	rt := vpU32()
	vpAssume(rt < 1<<24)
	v := &TransportLayerCC{SenderSSRC: vpU32(), MediaSSRC: vpU32(), BaseSequenceNumber: vpU16(), PacketStatusCount: uint16(count), ReferenceTime: rt, FbPktCount: vpU8()}
	for _, c := range sk {
		switch c.kind {
		case 0:
			v.PacketChunks = append(v.PacketChunks, &RunLengthChunk{Type: TypeTCCRunLengthChunk, PacketStatusSymbol: c.sym[0], RunLength: c.sym[1]})
		case 1:
			v.PacketChunks = append(v.PacketChunks, &StatusVectorChunk{Type: TypeTCCStatusVectorChunk, SymbolSize: TypeTCCSymbolSizeOneBit, SymbolList: c.sym})
		default:
			v.PacketChunks = append(v.PacketChunks, &StatusVectorChunk{Type: TypeTCCStatusVectorChunk, SymbolSize: TypeTCCSymbolSizeTwoBit, SymbolList: c.sym})
		}
	}
	st := vpTWCCStatuses(sk)
	type dl struct {
		large bool
		w     uint16
	}
	var ds []dl
	for i := 0; i < len(st); i++ {
		// the implementation produces a delta for every received symbol of every
		// chunk, including vector symbols beyond the status count
		if st[i] == TypeTCCPacketReceivedSmallDelta {
			w := uint16(vpU8())
			ds = append(ds, dl{false, w})
			v.RecvDeltas = append(v.RecvDeltas, &RecvDelta{Type: TypeTCCPacketReceivedSmallDelta, Delta: 250 * int64(w)})
		} else if st[i] == TypeTCCPacketReceivedLargeDelta {
			w := vpU16()
			ds = append(ds, dl{true, w})
			v.RecvDeltas = append(v.RecvDeltas, &RecvDelta{Type: TypeTCCPacketReceivedLargeDelta, Delta: 250 * int64(int16(w))})
		}
	}
	n := 20 + 2*len(sk)
	for _, d := range ds {
		if d.large {
			n += 2
		} else {
			n++
		}
	}
	pad := (4 - n%4) % 4
	ref := make([]byte, n+pad)
	vpRefHeader(ref, pad != 0, 15, 205)
	v.Header = Header{Padding: pad != 0, Count: 15, Type: 205, Length: uint16(len(ref)/4 - 1)}
	vpPut32(ref, 4, v.SenderSSRC)
	vpPut32(ref, 8, v.MediaSSRC)
	vpPut16(ref, 12, v.BaseSequenceNumber)
	vpPut16(ref, 14, v.PacketStatusCount)
	ref[16] = byte(rt >> 16)
	ref[17] = byte(rt >> 8)
	ref[18] = byte(rt)
	ref[19] = v.FbPktCount
	o := 20
	for _, c := range sk {
		var w uint16
		switch c.kind {
		case 0:
			w = c.sym[0]<<13 | c.sym[1]
		case 1:
			w = 0x8000
			for i := 0; i < 14; i++ {
				w |= c.sym[i] << (13 - uint(i))
			}
		default:
			w = 0xC000
			for i := 0; i < 7; i++ {
				w |= c.sym[i] << (12 - 2*uint(i))
			}
		}
		vpPut16(ref, o, w)
		o += 2
	}
	for _, d := range ds {
		if d.large {
			vpPut16(ref, o, d.w)
			o += 2
		} else {
			ref[o] = byte(d.w)
			o++
		}
	}
	if pad != 0 {
		ref[len(ref)-1] = byte(pad)
	}
	return vpCase{kind: vpKTWCC, pkt: v, pt: 205, cnt: 15, ref: ref, dst: []uint32{v.MediaSSRC},
		fresh: func() Packet { return new(TransportLayerCC) },
		same:  func(p Packet) bool { _, ok := p.(*TransportLayerCC); return ok },
		eq: func(p Packet) bool {
			d, ok := p.(*TransportLayerCC)
			if !ok || d.Header != v.Header || d.SenderSSRC != v.SenderSSRC || d.MediaSSRC != v.MediaSSRC || d.BaseSequenceNumber != v.BaseSequenceNumber ||
				d.PacketStatusCount != v.PacketStatusCount || d.ReferenceTime != v.ReferenceTime || d.FbPktCount != v.FbPktCount ||
				len(d.PacketChunks) != len(v.PacketChunks) || len(d.RecvDeltas) != len(v.RecvDeltas) {
				return false
			}
			r := true
			for i := range v.PacketChunks {
				switch x := v.PacketChunks[i].(type) {
				case *RunLengthChunk:
					y, ok := d.PacketChunks[i].(*RunLengthChunk)
					if !ok || y.Type != x.Type || y.PacketStatusSymbol != x.PacketStatusSymbol || y.RunLength != x.RunLength {
						r = false
					}
				case *StatusVectorChunk:
					y, ok := d.PacketChunks[i].(*StatusVectorChunk)
					if !ok || y.Type != x.Type || y.SymbolSize != x.SymbolSize || len(y.SymbolList) != len(x.SymbolList) {
						r = false
					} else {
						for k := range x.SymbolList {
							if y.SymbolList[k] != x.SymbolList[k] {
								r = false
							}
						}
					}
				}
			}
			for i := range v.RecvDeltas {
				if d.RecvDeltas[i] == nil || *d.RecvDeltas[i] != *v.RecvDeltas[i] {
					r = false
				}
			}
			return r
		}}
}

// ---------------------------------------------------------------- XR

// block kinds for a[1:]: 1..7 = RFC 3611 blocks, 8 = unknown block (4 bytes), 9 = unknown block (0 bytes)
func vpBuildXR(a []int) vpCase {
	kinds := a[1:]
	v := &ExtendedReport{SenderSSRC: vpU32()}
	var body []byte
	dst := []uint32{v.SenderSSRC}
	type chk func(ReportBlock) bool
	var checks []chk
	put16 := func(x uint16) { body = append(body, byte(x>>8), byte(x)) }
	put32 := func(x uint32) { body = append(body, byte(x>>24), byte(x>>16), byte(x>>8), byte(x)) }
	for _, k := range kinds {
		switch k {
		case 1, 2:
			t := vpU8()
			vpAssume(t < 16)
			ssrc, bs, es := vpU32(), vpU16(), vpU16()
			c0, c1 := vpU16(), vpU16()
			body = append(body, byte(k), t)
			put16(3)
			put32(ssrc)
			put16(bs)
			put16(es)
			put16(c0)
			put16(c1)
			dst = append(dst, ssrc)
			if k == 1 {
				v.Reports = append(v.Reports, &LossRLEReportBlock{T: t, SSRC: ssrc, BeginSeq: bs, EndSeq: es, Chunks: []Chunk{Chunk(c0), Chunk(c1)}})
				checks = append(checks, func(b ReportBlock) bool {
					d, ok := b.(*LossRLEReportBlock)
					return ok && d.T == t && d.SSRC == ssrc && d.BeginSeq == bs && d.EndSeq == es && len(d.Chunks) == 2 && d.Chunks[0] == Chunk(c0) && d.Chunks[1] == Chunk(c1) &&
						d.XRHeader.BlockType == 1 && d.XRHeader.BlockLength == 3
				})
			} else {
				v.Reports = append(v.Reports, &DuplicateRLEReportBlock{T: t, SSRC: ssrc, BeginSeq: bs, EndSeq: es, Chunks: []Chunk{Chunk(c0), Chunk(c1)}})
				checks = append(checks, func(b ReportBlock) bool {
					d, ok := b.(*DuplicateRLEReportBlock)
					return ok && d.T == t && d.SSRC == ssrc && d.BeginSeq == bs && d.EndSeq == es && len(d.Chunks) == 2 && d.Chunks[0] == Chunk(c0) && d.Chunks[1] == Chunk(c1) &&
						d.XRHeader.BlockType == 2 && d.XRHeader.BlockLength == 3
				})
			}
		case 3:
			t := vpU8()
			vpAssume(t < 16)
			ssrc, bs, es := vpU32(), vpU16(), vpU16()
			r0, r1 := vpU32(), vpU32()
			body = append(body, 3, t)
			put16(4)
			put32(ssrc)
			put16(bs)
			put16(es)
			put32(r0)
			put32(r1)
			dst = append(dst, ssrc)
			v.Reports = append(v.Reports, &PacketReceiptTimesReportBlock{T: t, SSRC: ssrc, BeginSeq: bs, EndSeq: es, ReceiptTime: []uint32{r0, r1}})
			checks = append(checks, func(b ReportBlock) bool {
				d, ok := b.(*PacketReceiptTimesReportBlock)
				return ok && d.T == t && d.SSRC == ssrc && d.BeginSeq == bs && d.EndSeq == es && len(d.ReceiptTime) == 2 && d.ReceiptTime[0] == r0 && d.ReceiptTime[1] == r1 &&
					d.XRHeader.BlockType == 3 && d.XRHeader.BlockLength == 4
			})
		case 4:
			ntp := vpU64()
			body = append(body, 4, 0)
			put16(2)
			put32(uint32(ntp >> 32))
			put32(uint32(ntp))
			v.Reports = append(v.Reports, &ReceiverReferenceTimeReportBlock{NTPTimestamp: ntp})
			checks = append(checks, func(b ReportBlock) bool {
				d, ok := b.(*ReceiverReferenceTimeReportBlock)
				return ok && d.NTPTimestamp == ntp && d.XRHeader.BlockType == 4 && d.XRHeader.BlockLength == 2
			})
		case 5:
			s0, l0, d0 := vpU32(), vpU32(), vpU32()
			body = append(body, 5, 0)
			put16(3)
			put32(s0)
			put32(l0)
			put32(d0)
			dst = append(dst, s0)
			v.Reports = append(v.Reports, &DLRRReportBlock{Reports: []DLRRReport{{SSRC: s0, LastRR: l0, DLRR: d0}}})
			checks = append(checks, func(b ReportBlock) bool {
				d, ok := b.(*DLRRReportBlock)
				return ok && len(d.Reports) == 1 && d.Reports[0] == DLRRReport{SSRC: s0, LastRR: l0, DLRR: d0} && d.XRHeader.BlockType == 5 && d.XRHeader.BlockLength == 3
			})
		case 6:
			l, dd, j := vpBool(), vpBool(), vpBool()
			toh := vpU8()
			vpAssume(toh < 4)
			m := &StatisticsSummaryReportBlock{LossReports: l, DuplicateReports: dd, JitterReports: j, TTLorHopLimit: TTLorHopLimitType(toh),
				SSRC: vpU32(), BeginSeq: vpU16(), EndSeq: vpU16(), LostPackets: vpU32(), DupPackets: vpU32(), MinJitter: vpU32(), MaxJitter: vpU32(),
				MeanJitter: vpU32(), DevJitter: vpU32(), MinTTLOrHL: vpU8(), MaxTTLOrHL: vpU8(), MeanTTLOrHL: vpU8(), DevTTLOrHL: vpU8()}
			ts := toh << 3
			if l {
				ts |= 0x80
			}
			if dd {
				ts |= 0x40
			}
			if j {
				ts |= 0x20
			}
			body = append(body, 6, ts)
			put16(9)
			put32(m.SSRC)
			put16(m.BeginSeq)
			put16(m.EndSeq)
			put32(m.LostPackets)
			put32(m.DupPackets)
			put32(m.MinJitter)
			put32(m.MaxJitter)
			put32(m.MeanJitter)
			put32(m.DevJitter)
			body = append(body, m.MinTTLOrHL, m.MaxTTLOrHL, m.MeanTTLOrHL, m.DevTTLOrHL)
			dst = append(dst, m.SSRC)
			cp := *m
			v.Reports = append(v.Reports, m)
			checks = append(checks, func(b ReportBlock) bool {
				d, ok := b.(*StatisticsSummaryReportBlock)
				if !ok {
					return false
				}
				x := *d
				x.XRHeader = XRHeader{}
				return x == cp && d.XRHeader.BlockType == 6 && d.XRHeader.BlockLength == 9 && uint8(d.XRHeader.TypeSpecific)&0xF8 == ts
			})
		case 7:
			m := &VoIPMetricsReportBlock{SSRC: vpU32(), LossRate: vpU8(), DiscardRate: vpU8(), BurstDensity: vpU8(), GapDensity: vpU8(),
				BurstDuration: vpU16(), GapDuration: vpU16(), RoundTripDelay: vpU16(), EndSystemDelay: vpU16(), SignalLevel: vpU8(), NoiseLevel: vpU8(),
				RERL: vpU8(), Gmin: vpU8(), RFactor: vpU8(), ExtRFactor: vpU8(), MOSLQ: vpU8(), MOSCQ: vpU8(), RXConfig: vpU8(),
				JBNominal: vpU16(), JBMaximum: vpU16(), JBAbsMax: vpU16()}
			body = append(body, 7, 0)
			put16(8)
			put32(m.SSRC)
			body = append(body, m.LossRate, m.DiscardRate, m.BurstDensity, m.GapDensity)
			put16(m.BurstDuration)
			put16(m.GapDuration)
			put16(m.RoundTripDelay)
			put16(m.EndSystemDelay)
			body = append(body, m.SignalLevel, m.NoiseLevel, m.RERL, m.Gmin, m.RFactor, m.ExtRFactor, m.MOSLQ, m.MOSCQ, m.RXConfig, 0)
			put16(m.JBNominal)
			put16(m.JBMaximum)
			put16(m.JBAbsMax)
			dst = append(dst, m.SSRC)
			cp := *m
			v.Reports = append(v.Reports, m)
			checks = append(checks, func(b ReportBlock) bool {
				d, ok := b.(*VoIPMetricsReportBlock)
				if !ok {
					return false
				}
				x := *d
				x.XRHeader = XRHeader{}
				return x == cp && d.XRHeader.BlockType == 7 && d.XRHeader.BlockLength == 8
			})
		case 8, 9:
			bt, ts := vpU8(), vpU8()
			vpAssume(bt == 0 || bt >= 8)
			nb := 4
			if k == 9 {
				nb = 0
			}
			data := vpBytes(nb)
			body = append(body, bt, ts)
			put16(uint16(nb / 4))
			body = append(body, data...)
			v.Reports = append(v.Reports, &UnknownReportBlock{XRHeader: XRHeader{BlockType: BlockTypeType(bt), TypeSpecific: TypeSpecificField(ts)}, Bytes: data})
			checks = append(checks, func(b ReportBlock) bool {
				d, ok := b.(*UnknownReportBlock)
				return ok && uint8(d.XRHeader.BlockType) == bt && uint8(d.XRHeader.TypeSpecific) == ts && int(d.XRHeader.BlockLength) == nb/4 && vpBytesEq(d.Bytes, data)
			})
		case 10, 11:
			// RLE blocks with an odd number of chunks (1 or 3)
			nch := 1
			if k == 11 {
				nch = 3
			}
			ssrc := vpU32()
			cs := make([]Chunk, nch)
			for i := range cs {
				cs[i] = Chunk(vpU16())
			}
			v.Reports = append(v.Reports, &LossRLEReportBlock{T: 1, SSRC: ssrc, BeginSeq: vpU16(), EndSeq: vpU16(), Chunks: cs})
			dst = append(dst, ssrc)
			checks = append(checks, func(b ReportBlock) bool { return true })
		case 12:
			ssrc := vpU32()
			v.Reports = append(v.Reports, &PacketReceiptTimesReportBlock{T: 2, SSRC: ssrc, ReceiptTime: []uint32{vpU32()}})
			dst = append(dst, ssrc)
			checks = append(checks, func(b ReportBlock) bool { return true })
		case 13:
			s0, s1 := vpU32(), vpU32()
			v.Reports = append(v.Reports, &DLRRReportBlock{Reports: []DLRRReport{{SSRC: s0}, {SSRC: s1}}})
			dst = append(dst, s0, s1)
			checks = append(checks, func(b ReportBlock) bool { return true })
		case 14:
			v.Reports = append(v.Reports, &DLRRReportBlock{})
			checks = append(checks, func(b ReportBlock) bool { return true })
		case 15:
			v.Reports = append(v.Reports, &UnknownReportBlock{XRHeader: XRHeader{BlockType: 9}, Bytes: vpBytes(8)})
			checks = append(checks, func(b ReportBlock) bool { return true })
		default:
			panic("unknown XR block kind")
		}
	}
	ref := make([]byte, 8+len(body))
	vpRefHeader(ref, false, 0, 207)
	vpPut32(ref, 4, v.SenderSSRC)
	copy(ref[8:], body)
	return vpCase{kind: vpKXR, pkt: v, pt: 207, cnt: 0, ref: ref, dst: dst,
		fresh: func() Packet { return new(ExtendedReport) },
		same:  func(p Packet) bool { _, ok := p.(*ExtendedReport); return ok },
		eq: func(p Packet) bool {
			d, ok := p.(*ExtendedReport)
			if !ok || d.SenderSSRC != v.SenderSSRC || len(d.Reports) != len(checks) {
				return false
			}
			r := true
			for i := range checks {
				if !checks[i](d.Reports[i]) {
					r = false
				}
			}
			return r
		}}
}

// bit-identical float comparison (so that equal NaN payloads compare equal)
func vpF32Same(x, y float32) bool { return math.Float32bits(x) == math.Float32bits(y) }
