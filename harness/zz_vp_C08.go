package rtcp

// C08: Marshal never silently truncates: out-of-range values are errors.

// VpC08_TotalLost: cumulative lost over all uint32 values through SR and RR.
func VpC08_TotalLost(a []int) {
	tl := vpU32()
	rep := ReceptionReport{SSRC: vpU32(), TotalLost: tl}
	var out []byte
	var err error
	if a[0] == 0 {
		out, err = SenderReport{Reports: []ReceptionReport{rep}}.Marshal()
	} else {
		out, err = ReceiverReport{Reports: []ReceptionReport{rep}}.Marshal()
	}
	vpAssert("C08.totallost-limit", (err != nil) == (tl >= 1<<24))
	if err == nil {
		o := 28 + 5
		if a[0] == 1 {
			o = 8 + 5
		}
		vpAssert("C08.totallost-bytes", len(out) > o+2 && uint32(out[o])<<16|uint32(out[o+1])<<8|uint32(out[o+2]) == tl)
	} else {
		vpAssert("C08.no-bytes-on-error", out == nil)
	}
	vpObserveBool("err", err != nil)
	vpReach("end")
}

// VpC08_Counts: list lengths at limit-1, limit, limit+1 (a[0] = which list, a[1] = length).
func VpC08_Counts(a []int) {
	n := a[1]
	var out []byte
	var err error
	limit := 31
	cntOK := false
	switch a[0] {
	case 0: // SR reports
		out, err = SenderReport{SSRC: vpU32(), Reports: make([]ReceptionReport, n)}.Marshal()
		cntOK = err == nil && int(out[0]&0x1f) == n && len(out) == 28+24*n
	case 1: // RR reports
		out, err = ReceiverReport{SSRC: vpU32(), Reports: make([]ReceptionReport, n)}.Marshal()
		cntOK = err == nil && int(out[0]&0x1f) == n && len(out) == 8+24*n
	case 2: // SDES chunks
		ch := make([]SourceDescriptionChunk, n)
		for i := range ch {
			ch[i].Items = []SourceDescriptionItem{{Type: SDESCNAME, Text: "a"}}
		}
		out, err = SourceDescription{Chunks: ch}.Marshal()
		cntOK = err == nil && int(out[0]&0x1f) == n && len(out) == 4+8*n
	case 3: // BYE sources
		out, err = Goodbye{Sources: make([]uint32, n)}.Marshal()
		cntOK = err == nil && int(out[0]&0x1f) == n && len(out) == 4+4*n
	case 4: // REMB SSRCs
		limit = 255
		out, err = ReceiverEstimatedMaximumBitrate{Bitrate: 1, SSRCs: make([]uint32, n)}.Marshal()
		cntOK = err == nil && int(out[16]) == n && len(out) == 20+4*n
	case 5: // NACK pairs
		limit = 253
		out, err = TransportLayerNack{Nacks: make([]NackPair, n)}.Marshal()
		cntOK = err == nil && len(out) == 12+4*n && int(out[2])<<8|int(out[3]) == 2+n
	case 6: // SLI entries
		limit = 253
		out, err = SliceLossIndication{SLI: make([]SLIEntry, n)}.Marshal()
		cntOK = err == nil && len(out) == 12+4*n && int(out[2])<<8|int(out[3]) == 2+n
	case 7: // CCFB metric blocks in one block
		limit = 16384
		out, err = CCFeedbackReport{ReportBlocks: []CCFeedbackReportBlock{{MetricBlocks: make([]CCFeedbackMetricBlock, n)}}}.Marshal()
		cntOK = err == nil && len(out) == 8+8+2*((n+1)/2*2)+4
	}
	vpAssert("C08.count-limit", (err != nil) == (n > limit))
	if err == nil {
		vpAssert("C08.count-represented", cntOK)
	} else {
		vpAssert("C08.no-bytes-on-error", out == nil)
	}
	vpReach("end")
}

// VpC08_Texts: SDES text / BYE reason / APP name lengths around their limits (contents symbolic at the edges).
func VpC08_Texts(a []int) {
	n := a[1]
	b := make([]byte, n)
	if n > 0 {
		b[0] = vpU8()
		b[n-1] = vpU8()
	}
	var out []byte
	var err error
	switch a[0] {
	case 0:
		out, err = SourceDescription{Chunks: []SourceDescriptionChunk{{Source: 1, Items: []SourceDescriptionItem{{Type: SDESCNAME, Text: string(b)}}}}}.Marshal()
		vpAssert("C08.text-limit", (err != nil) == (n > 255))
		if err == nil {
			vpAssert("C08.text-length-octet", int(out[9]) == n && len(out) == 4+(4+2+n+1+3)/4*4)
		}
	case 1:
		out, err = Goodbye{Sources: []uint32{1}, Reason: string(b)}.Marshal()
		vpAssert("C08.reason-limit", (err != nil) == (n > 255))
		if err == nil && n > 0 {
			vpAssert("C08.reason-length-octet", int(out[8]) == n)
		}
	case 2:
		out, err = ApplicationDefined{SSRC: 1, Name: string(b)}.Marshal()
		vpAssert("C08.app-name-four", (err != nil) == (n != 4))
	}
	if err != nil {
		vpAssert("C08.no-bytes-on-error", out == nil)
	}
	vpReach("end")
}

// VpC08_SmallFields: header count / APP subtype over all uint8, SDES item type over all uint8.
func VpC08_SmallFields(a []int) {
	st := vpU8()
	out, err := ApplicationDefined{SubType: st, SSRC: 1, Name: "abcd"}.Marshal()
	vpAssert("C08.subtype-limit", (err != nil) == (st > 31))
	if err == nil {
		vpAssert("C08.subtype-represented", out[0]&0x1f == st)
	}
	t := vpU8()
	o2, e2 := SourceDescription{Chunks: []SourceDescriptionChunk{{Source: 1, Items: []SourceDescriptionItem{{Type: SDESType(t), Text: "x"}}}}}.Marshal()
	vpAssert("C08.sdes-type-zero", (e2 != nil) == (t == 0))
	if e2 == nil {
		vpAssert("C08.sdes-type-represented", o2[8] == t)
	}
	h := Header{Count: vpU8(), Type: 200}
	_, e3 := h.Marshal()
	vpAssert("C08.header-count-limit", (e3 != nil) == (h.Count > 31))
	vpReach("end")
}

// VpC08_TWCCDelta: a receive delta outside its 1- or 2-byte range must be an
// error; a[0] = delta type (1 small, 2 large); all int64 deltas; a following
// delta must keep its position.
func VpC08_TWCCDelta(a []int) {
	typ := uint16(a[0])
	d := int64(vpU64())
	after := uint16(vpU8())
	t := TransportLayerCC{Header: Header{Count: 15, Type: 205, Length: 5},
		PacketStatusCount: 2,
		PacketChunks:      []PacketStatusChunk{&RunLengthChunk{PacketStatusSymbol: typ, RunLength: 1}, &RunLengthChunk{PacketStatusSymbol: 1, RunLength: 1}},
		RecvDeltas:        []*RecvDelta{{Type: typ, Delta: d}, {Type: 1, Delta: 250 * int64(after)}}}
	out, err := t.Marshal()
	q := d / 250
	fits := (typ == 1 && q >= 0 && q <= 255) || (typ == 2 && q >= -32768 && q <= 32767)
	vpAssert("C08.twcc-delta-limit", (err != nil) == !fits)
	if err == nil && fits {
		o := 24
		if typ == 1 {
			vpAssert("C08.twcc-delta-small", len(out) > o+1 && int64(out[o]) == q && uint16(out[o+1]) == after)
		} else {
			vpAssert("C08.twcc-delta-large", len(out) > o+2 && int64(int16(uint16(out[o])<<8|uint16(out[o+1]))) == q && uint16(out[o+2]) == after)
		}
	}
	vpObserveBool("err", err != nil)
	vpReach("end")
}

// VpC08_REMBSign: negative bitrates (any exponent) and the 64-bit exponent limit.
func VpC08_REMBSign(a []int) {
	VpC14_Negative(a)
}
