package rtcp

import (
	"fmt"
	"math"
)

// C17: String() is total on every decoded or constructible packet.
// Panics of package rtcp's own formatting code are implicit assertions;
// fmt/strings are stubbed (see DESIGN: fmt recovers panics of String methods
// it calls itself, which the engine mirrors).

func vpStringOf(p Packet) string {
	if s, ok := p.(fmt.Stringer); ok {
		return s.String()
	}
	return stringify(p)
}

// VpC17_Decoded: every packet in the image of rtcp.Unmarshal on one frame of
// a[0] octets of packet-type class a[1] (0 = outside 200..207), FMT a[2] (-1 any).
func VpC17_Decoded(a []int) {
	n := a[0]
	b := vpBytes(n)
	vpAssume(b[0]>>6 == 2 && int(b[2])<<8|int(b[3]) == n/4-1)
	if a[1] == 0 {
		vpAssume(b[1] < 200 || b[1] > 207)
	} else {
		vpAssume(int(b[1]) == a[1])
	}
	if a[2] >= 0 {
		vpAssume(int(b[0]&0x1f) == a[2])
	}
	if a[1] == 205 && n >= 16 {
		vpAssume(b[0]&0x1f != 15 || (b[14] == 0 && b[15] <= 8))
	}
	ps, err := Unmarshal(b)
	if err == nil {
		vpReach("accepted")
		for i := 0; i < len(ps); i++ {
			_ = vpStringOf(ps[i])
			_ = fmt.Sprintf("%v %+v", ps[i], ps[i])
		}
		_ = CompoundPacket(ps).String()
	}
	vpReach("end")
}

// VpC17_REMB: a[0] = IEEE exponent field (0..255), sign and fraction symbolic:
// every float32 bit pattern including infinities and NaNs.
func VpC17_REMB(a []int) {
	bits := vpU32()&0x807FFFFF | uint32(a[0])<<23
	p := &ReceiverEstimatedMaximumBitrate{SenderSSRC: vpU32(), Bitrate: math.Float32frombits(bits), SSRCs: []uint32{vpU32()}}
	_ = p.String()
	vpReach("end")
}

// VpC17_Enums: all 256 values of the enum-like types, all 2^16 XR chunks.
func VpC17_Enums(a []int) {
	v := vpU8()
	_ = PacketType(v).String()
	_ = SDESType(v).String()
	_ = BlockTypeType(v).String()
	_ = TTLorHopLimitType(v).String()
	_ = Chunk(vpU16()).String()
	_ = ECN(v)
	vpReach("end")
}

// VpC17_WellFormed: well-formed values of every type (codec shapes), plus a
// compound of the value with an RR and an SDES.
func VpC17_WellFormed(a []int) {
	c := vpBuild(a)
	_ = vpStringOf(c.pkt)
	cp := CompoundPacket{&ReceiverReport{SSRC: vpU32()}, NewCNAMESourceDescription(vpU32(), "x"), c.pkt}
	_ = cp.String()
	vpReach("end")
}
