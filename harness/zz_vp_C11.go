package rtcp

// C11: CompoundPacket enforces the RFC 3550 compound rules exactly.

type vpElem struct {
	p    Packet
	kind int
	sdes *SourceDescription
	size int
}

// one element of symbolic kind (0..7); SDES elements have 0..2 chunks of 0..2
// items with symbolic item types and texts
func vpMkElem() vpElem {
	k := vpU8()
	vpAssume(k < 8)
	nc := int(vpU8())
	ni := int(vpU8())
	vpAssume(nc <= 2 && ni <= 2)
	t0, t1, t2, t3 := vpU8(), vpU8(), vpU8(), vpU8()
	x0, x1, x2, x3 := vpU8(), vpU8(), vpU8(), vpU8()
	vpAssume(t0 != 0 && t1 != 0 && t2 != 0 && t3 != 0)
	ssrc := vpU32()
	switch k {
	case 0:
		return vpElem{p: &SenderReport{SSRC: ssrc}, kind: vpKSR, size: 28}
	case 1:
		return vpElem{p: &ReceiverReport{SSRC: ssrc}, kind: vpKRR, size: 8}
	case 2:
		all := []SourceDescriptionChunk{
			{Source: ssrc, Items: []SourceDescriptionItem{{Type: SDESType(t0), Text: string([]byte{x0})}, {Type: SDESType(t1), Text: string([]byte{x1})}}[:ni]},
			{Source: ssrc + 1, Items: []SourceDescriptionItem{{Type: SDESType(t2), Text: string([]byte{x2})}, {Type: SDESType(t3), Text: string([]byte{x3})}}[:ni]},
		}
		s := &SourceDescription{Chunks: all[:nc]}
		// chunk size: 4 + 3*ni + 1 rounded up to 4
		cl := (4 + 3*ni + 1 + 3) / 4 * 4
		return vpElem{p: s, kind: vpKSDES, sdes: s, size: 4 + nc*cl}
	case 3:
		return vpElem{p: &Goodbye{Sources: []uint32{ssrc}}, kind: vpKBYE, size: 8}
	case 4:
		return vpElem{p: &PictureLossIndication{SenderSSRC: ssrc, MediaSSRC: ssrc}, kind: vpKPLI, size: 12}
	case 5:
		return vpElem{p: &ApplicationDefined{SSRC: ssrc, Name: "abcd"}, kind: vpKAPP, size: 12}
	case 6:
		return vpElem{p: &ExtendedReport{SenderSSRC: ssrc}, kind: vpKXR, size: 8}
	}
	r := RawPacket([]byte{0x80, 199, 0, 0})
	return vpElem{p: &r, kind: vpKRAW, size: 4}
}

func vpSDESCname(s *SourceDescription) (bool, string) {
	found := false
	text := ""
	for ci := 0; ci < len(s.Chunks); ci++ {
		for ii := 0; ii < len(s.Chunks[ci].Items); ii++ {
			if !found && s.Chunks[ci].Items[ii].Type == SDESCNAME {
				found = true
				text = s.Chunks[ci].Items[ii].Text
			}
		}
	}
	return found, text
}

// reference grammar (RFC 3550 6.1 as the property states it)
func vpRefCompound(es []vpElem) (bool, string) {
	if len(es) == 0 || (es[0].kind != vpKSR && es[0].kind != vpKRR) {
		return false, ""
	}
	for i := 1; i < len(es); i++ {
		if es[i].kind == vpKRR {
			continue
		}
		if es[i].kind == vpKSDES {
			return vpSDESCname(es[i].sdes)
		}
		return false, ""
	}
	return false, ""
}

// VpC11_Grammar: all sequences of a[0] elements over the 8 kinds.
func VpC11_Grammar(a []int) {
	n := a[0]
	es := make([]vpElem, n)
	c := make(CompoundPacket, n)
	total := 0
	for i := 0; i < n; i++ {
		es[i] = vpMkElem()
		c[i] = es[i].p
		total += es[i].size
	}
	ok, text := vpRefCompound(es)
	verr := c.Validate()
	vpAssert("C11.validate-iff-grammar", (verr == nil) == ok)
	if verr == nil && ok {
		got, cerr := c.CNAME()
		vpAssert("C11.cname", cerr == nil && vpStrEq(got, text))
	}
	if n > 0 {
		vpAssert("C11.destination-ssrc", vpU32sEq(c.DestinationSSRC(), c[0].DestinationSSRC()))
	} else {
		vpAssert("C11.destination-ssrc-empty", len(c.DestinationSSRC()) == 0)
	}
	vpAssert("C11.marshalsize-sum", c.MarshalSize() == total)
	out, merr := c.Marshal()
	// every member built here marshals, so Marshal succeeds exactly when Validate does
	vpAssert("C11.marshal-iff-validate", (merr == nil) == (verr == nil))
	if merr == nil {
		vpAssert("C11.marshal-length", len(out) == total)
	}
	vpObserveBool("valid", verr == nil)
	vpReach("end")
}

// VpC11_MemberFails: Marshal fails when a member fails although the sequence validates.
func VpC11_MemberFails(a []int) {
	tl := vpU32()
	c := CompoundPacket{&ReceiverReport{SSRC: 1, Reports: []ReceptionReport{{SSRC: 2, TotalLost: tl}}}, NewCNAMESourceDescription(1, "c")}
	vpAssert("C11.validates", c.Validate() == nil)
	_, err := c.Marshal()
	vpAssert("C11.marshal-iff-members", (err == nil) == (tl < 1<<24))
	vpReach("end")
}

// VpC11_Unmarshal: CompoundPacket.Unmarshal succeeds exactly when the datagram
// decodes and the result validates (a[0] = datagram length, a[1..] = frame
// lengths in words-1 for the leading frames, so that offsets are concrete).
func VpC11_Unmarshal(a []int) {
	n := a[0]
	b := vpBytes(n)
	off := 0
	for _, w := range a[1:] {
		if off+4 <= n {
			vpAssume(b[off+2] == 0 && int(b[off+3]) == w)
		}
		off += 4 * (w + 1)
	}
	var c CompoundPacket
	cerr := c.Unmarshal(b)
	ps, derr := Unmarshal(b)
	want := derr == nil && CompoundPacket(ps).Validate() == nil
	vpAssert("C11.unmarshal-iff-decode-and-validate", (cerr == nil) == want)
	vpObserveBool("ok", cerr == nil)
	vpReach("end")
}
