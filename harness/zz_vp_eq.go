package rtcp

// Generic field-wise packet equality (slices and strings by length and
// content, nil == empty), used by C06 and C09.

func vpChunkEq(x, y PacketStatusChunk) bool {
	switch a := x.(type) {
	case *RunLengthChunk:
		b, ok := y.(*RunLengthChunk)
		return ok && a.Type == b.Type && a.PacketStatusSymbol == b.PacketStatusSymbol && a.RunLength == b.RunLength
	case *StatusVectorChunk:
		b, ok := y.(*StatusVectorChunk)
		if !ok || a.Type != b.Type || a.SymbolSize != b.SymbolSize || len(a.SymbolList) != len(b.SymbolList) {
			return false
		}
		r := true
		for i := 0; i < len(a.SymbolList); i++ {
			if a.SymbolList[i] != b.SymbolList[i] {
				r = false
			}
		}
		return r
	}
	return x == nil && y == nil
}

func vpXRBlockEq(x, y ReportBlock) bool {
	chunksEq := func(p, q []Chunk) bool {
		if len(p) != len(q) {
			return false
		}
		r := true
		for i := 0; i < len(p); i++ {
			if p[i] != q[i] {
				r = false
			}
		}
		return r
	}
	switch a := x.(type) {
	case *LossRLEReportBlock:
		b, ok := y.(*LossRLEReportBlock)
		return ok && a.XRHeader.BlockType == b.XRHeader.BlockType && a.XRHeader.BlockLength == b.XRHeader.BlockLength && a.T == b.T && a.SSRC == b.SSRC && a.BeginSeq == b.BeginSeq && a.EndSeq == b.EndSeq && chunksEq(a.Chunks, b.Chunks)
	case *DuplicateRLEReportBlock:
		b, ok := y.(*DuplicateRLEReportBlock)
		return ok && a.XRHeader.BlockType == b.XRHeader.BlockType && a.XRHeader.BlockLength == b.XRHeader.BlockLength && a.T == b.T && a.SSRC == b.SSRC && a.BeginSeq == b.BeginSeq && a.EndSeq == b.EndSeq && chunksEq(a.Chunks, b.Chunks)
	case *PacketReceiptTimesReportBlock:
		b, ok := y.(*PacketReceiptTimesReportBlock)
		return ok && a.XRHeader.BlockType == b.XRHeader.BlockType && a.XRHeader.BlockLength == b.XRHeader.BlockLength && a.T == b.T && a.SSRC == b.SSRC && a.BeginSeq == b.BeginSeq && a.EndSeq == b.EndSeq && vpU32sEq(a.ReceiptTime, b.ReceiptTime)
	case *ReceiverReferenceTimeReportBlock:
		b, ok := y.(*ReceiverReferenceTimeReportBlock)
		return ok && a.XRHeader.BlockType == b.XRHeader.BlockType && a.XRHeader.BlockLength == b.XRHeader.BlockLength && a.NTPTimestamp == b.NTPTimestamp
	case *DLRRReportBlock:
		b, ok := y.(*DLRRReportBlock)
		if !ok || a.XRHeader.BlockType != b.XRHeader.BlockType || a.XRHeader.BlockLength != b.XRHeader.BlockLength || len(a.Reports) != len(b.Reports) {
			return false
		}
		r := true
		for i := 0; i < len(a.Reports); i++ {
			if a.Reports[i] != b.Reports[i] {
				r = false
			}
		}
		return r
	case *StatisticsSummaryReportBlock:
		b, ok := y.(*StatisticsSummaryReportBlock)
		if !ok {
			return false
		}
		p, q := *a, *b
		// reserved bits of the type-specific octet are not part of packet equality
		p.XRHeader.TypeSpecific, q.XRHeader.TypeSpecific = 0, 0
		return p == q
	case *VoIPMetricsReportBlock:
		b, ok := y.(*VoIPMetricsReportBlock)
		if !ok {
			return false
		}
		p, q := *a, *b
		p.XRHeader.TypeSpecific, q.XRHeader.TypeSpecific = 0, 0
		return p == q
	case *UnknownReportBlock:
		b, ok := y.(*UnknownReportBlock)
		return ok && a.XRHeader == b.XRHeader && vpBytesEq(a.Bytes, b.Bytes)
	}
	return false
}

func vpPktEq(x, y Packet) bool {
	switch a := x.(type) {
	case *SenderReport:
		b, ok := y.(*SenderReport)
		return ok && a.SSRC == b.SSRC && a.NTPTime == b.NTPTime && a.RTPTime == b.RTPTime && a.PacketCount == b.PacketCount && a.OctetCount == b.OctetCount &&
			vpReportsEq(a.Reports, b.Reports) && vpBytesEq(a.ProfileExtensions, b.ProfileExtensions)
	case *ReceiverReport:
		b, ok := y.(*ReceiverReport)
		return ok && a.SSRC == b.SSRC && vpReportsEq(a.Reports, b.Reports) && vpBytesEq(a.ProfileExtensions, b.ProfileExtensions)
	case *SourceDescription:
		b, ok := y.(*SourceDescription)
		if !ok || len(a.Chunks) != len(b.Chunks) {
			return false
		}
		r := true
		for c := 0; c < len(a.Chunks); c++ {
			if a.Chunks[c].Source != b.Chunks[c].Source || len(a.Chunks[c].Items) != len(b.Chunks[c].Items) {
				r = false
			} else {
				for i := 0; i < len(a.Chunks[c].Items); i++ {
					if a.Chunks[c].Items[i].Type != b.Chunks[c].Items[i].Type || !vpStrEq(a.Chunks[c].Items[i].Text, b.Chunks[c].Items[i].Text) {
						r = false
					}
				}
			}
		}
		return r
	case *Goodbye:
		b, ok := y.(*Goodbye)
		return ok && vpU32sEq(a.Sources, b.Sources) && vpStrEq(a.Reason, b.Reason)
	case *ApplicationDefined:
		b, ok := y.(*ApplicationDefined)
		return ok && a.SubType == b.SubType && a.SSRC == b.SSRC && vpStrEq(a.Name, b.Name) && vpBytesEq(a.Data, b.Data)
	case *TransportLayerNack:
		b, ok := y.(*TransportLayerNack)
		if !ok || a.SenderSSRC != b.SenderSSRC || a.MediaSSRC != b.MediaSSRC || len(a.Nacks) != len(b.Nacks) {
			return false
		}
		r := true
		for i := 0; i < len(a.Nacks); i++ {
			if a.Nacks[i] != b.Nacks[i] {
				r = false
			}
		}
		return r
	case *RapidResynchronizationRequest:
		b, ok := y.(*RapidResynchronizationRequest)
		return ok && *a == *b
	case *PictureLossIndication:
		b, ok := y.(*PictureLossIndication)
		return ok && *a == *b
	case *SliceLossIndication:
		b, ok := y.(*SliceLossIndication)
		if !ok || a.SenderSSRC != b.SenderSSRC || a.MediaSSRC != b.MediaSSRC || len(a.SLI) != len(b.SLI) {
			return false
		}
		r := true
		for i := 0; i < len(a.SLI); i++ {
			if a.SLI[i] != b.SLI[i] {
				r = false
			}
		}
		return r
	case *FullIntraRequest:
		b, ok := y.(*FullIntraRequest)
		if !ok || a.SenderSSRC != b.SenderSSRC || a.MediaSSRC != b.MediaSSRC || len(a.FIR) != len(b.FIR) {
			return false
		}
		r := true
		for i := 0; i < len(a.FIR); i++ {
			if a.FIR[i] != b.FIR[i] {
				r = false
			}
		}
		return r
	case *ReceiverEstimatedMaximumBitrate:
		b, ok := y.(*ReceiverEstimatedMaximumBitrate)
		return ok && a.SenderSSRC == b.SenderSSRC && vpF32Same(a.Bitrate, b.Bitrate) && vpU32sEq(a.SSRCs, b.SSRCs)
	case *CCFeedbackReport:
		b, ok := y.(*CCFeedbackReport)
		if !ok || a.SenderSSRC != b.SenderSSRC || a.ReportTimestamp != b.ReportTimestamp || len(a.ReportBlocks) != len(b.ReportBlocks) {
			return false
		}
		r := true
		for i := 0; i < len(a.ReportBlocks); i++ {
			p, q := a.ReportBlocks[i], b.ReportBlocks[i]
			if p.MediaSSRC != q.MediaSSRC || p.BeginSequence != q.BeginSequence || len(p.MetricBlocks) != len(q.MetricBlocks) {
				r = false
			} else {
				for m := 0; m < len(p.MetricBlocks); m++ {
					if p.MetricBlocks[m] != q.MetricBlocks[m] {
						r = false
					}
				}
			}
		}
		return r
	case *TransportLayerCC:
		b, ok := y.(*TransportLayerCC)
		if !ok || a.Header != b.Header || a.SenderSSRC != b.SenderSSRC || a.MediaSSRC != b.MediaSSRC || a.BaseSequenceNumber != b.BaseSequenceNumber ||
			a.PacketStatusCount != b.PacketStatusCount || a.ReferenceTime != b.ReferenceTime || a.FbPktCount != b.FbPktCount ||
			len(a.PacketChunks) != len(b.PacketChunks) || len(a.RecvDeltas) != len(b.RecvDeltas) {
			return false
		}
		r := true
		for i := 0; i < len(a.PacketChunks); i++ {
			if !vpChunkEq(a.PacketChunks[i], b.PacketChunks[i]) {
				r = false
			}
		}
		for i := 0; i < len(a.RecvDeltas); i++ {
			if a.RecvDeltas[i] == nil || b.RecvDeltas[i] == nil || *a.RecvDeltas[i] != *b.RecvDeltas[i] {
				r = false
			}
		}
		return r
	case *ExtendedReport:
		b, ok := y.(*ExtendedReport)
		if !ok || a.SenderSSRC != b.SenderSSRC || len(a.Reports) != len(b.Reports) {
			return false
		}
		r := true
		for i := 0; i < len(a.Reports); i++ {
			if !vpXRBlockEq(a.Reports[i], b.Reports[i]) {
				r = false
			}
		}
		return r
	case *RawPacket:
		b, ok := y.(*RawPacket)
		return ok && vpBytesEq([]byte(*a), []byte(*b))
	}
	return false
}

func vpPktsEq(x, y []Packet) bool {
	if len(x) != len(y) {
		return false
	}
	r := true
	for i := 0; i < len(x); i++ {
		if !vpPktEq(x[i], y[i]) {
			r = false
		}
	}
	return r
}
