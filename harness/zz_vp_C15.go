package rtcp

// C15: XR report blocks are self-delimiting; unknown blocks survive verbatim.

// VpC15: a = sequence of block kinds (1..7 RFC 3611 kinds, 8/9 unknown blocks
// with 4/0 content octets); all field values symbolic.
func VpC15(a []int) {
	kinds := a
	c := vpBuildXR(append([]int{vpKXR}, kinds...))
	out, err := c.pkt.Marshal()
	vpAssert("C15.marshal-ok", err == nil)
	if err != nil {
		vpReach("end")
		return
	}
	vpObserveBytes("out", out)
	// (1) RFC 3611 layout of every block (reference built block by block)
	vpAssert("C15.rfc-layout", vpBytesEq(out, c.ref))
	// (2) independent block walker: BT, block length in words minus one
	off := 8
	ok := len(out) >= 8
	for i := 0; i < len(kinds); i++ {
		if ok && off+4 <= len(out) {
			bt := out[off]
			bl := int(out[off+2])<<8 | int(out[off+3])
			k := kinds[i]
			if k >= 1 && k <= 7 {
				if int(bt) != k {
					ok = false
				}
			} else if bt >= 1 && bt <= 7 {
				ok = false
			}
			exp := 0
			switch k {
			case 1, 2:
				exp = 4 + 8 + 4
			case 3:
				exp = 4 + 8 + 8
			case 4:
				exp = 4 + 8
			case 5:
				exp = 4 + 12
			case 6:
				exp = 4 + 36
			case 7:
				exp = 4 + 32
			case 8:
				exp = 4 + 4
			case 9:
				exp = 4
			}
			if 4*(bl+1) != exp {
				ok = false
			}
			off += 4 * (bl + 1)
		} else {
			ok = false
		}
	}
	vpAssert("C15.blocks-self-delimiting", ok && off == len(out))
	// (3) blocks decode in order, each to the Go type of its block type, field-equal
	d := new(ExtendedReport)
	e2 := d.Unmarshal(out)
	vpAssert("C15.decode-ok", e2 == nil)
	if e2 == nil {
		vpAssert("C15.decode-equal", c.eq(d))
		// (4) re-encoding the decoded report (including opaque blocks) reproduces the bytes
		o2, e3 := d.Marshal()
		vpAssert("C15.reencode-verbatim", e3 == nil && vpBytesEq(o2, out))
	}
	vpReach("end")
}
