package rtcp

// C04: Unmarshal extracts the RFC-specified fields from any valid encoding,
// including forms the library's own encoder never produces.

func vpDecodeBoth(c vpCase, enc []byte, name string) {
	d := c.fresh()
	e1 := d.Unmarshal(enc)
	vpAssert("C04."+name+".own-accepts", e1 == nil)
	if e1 == nil {
		vpAssert("C04."+name+".own-fields", c.eq(d))
	}
	ps, e2 := Unmarshal(enc)
	vpAssert("C04."+name+".datagram-accepts", e2 == nil && len(ps) == 1)
	if e2 == nil && len(ps) == 1 && c.same(ps[0]) {
		vpAssert("C04."+name+".datagram-fields", c.eq(ps[0]))
	}
}

// VpC04_Canonical: the RFC reference encoding of every model value (codec
// shapes) is accepted and yields exactly the model's fields.
func VpC04_Canonical(a []int) {
	c := vpBuild(a)
	vpC04Known(a, c)
	enc := append([]byte{}, c.ref...)
	if c.kind == vpKCCFB {
		// library convention for num_reports (see DESIGN C03): n-1, 0 for empty
		p := c.pkt.(*CCFeedbackReport)
		o := 8
		for i := range p.ReportBlocks {
			n := len(p.ReportBlocks[i].MetricBlocks)
			if n > 0 {
				enc[o+6], enc[o+7] = byte((n-1)>>8), byte(n-1)
			}
			o += 8 + 2*((n+1)/2*2)
		}
	}
	vpDecodeBoth(c, enc, "canonical")
	vpReach("end")
}

// VpC04_CountInflated: an SR, RR, SDES or BYE whose header count claims more
// elements than the packet holds is rejected (d >= 1 symbolic).
func VpC04_CountInflated(a []int) {
	c := vpBuild(a)
	d := vpU8()
	vpAssume(d >= 1 && int(c.cnt)+int(d) <= 31)
	enc := append([]byte{}, c.ref...)
	enc[0] = enc[0]&0xe0 | (c.cnt + d)
	// the claim must exceed what the packet's octets can hold (otherwise the
	// inflated header describes a different, valid packet: e.g. a BYE whose
	// reason octets are read as one more source)
	n := int(c.cnt) + int(d)
	exceeds := true
	switch c.kind {
	case vpKSR:
		exceeds = 28+24*n > len(enc)
	case vpKRR:
		exceeds = 8+24*n > len(enc)
	case vpKBYE:
		exceeds = 4+4*n > len(enc)
	}
	if exceeds {
		x := c.fresh()
		vpAssert("C04.count-inflated.own-rejects", x.Unmarshal(enc) != nil)
		ps, err := Unmarshal(enc)
		vpAssert("C04.count-inflated.datagram-rejects", err != nil && ps == nil)
		vpReach("inflated")
	}
	vpReach("end")
}

// VpC04_Reserved: reserved bits an RFC peer may set are ignored: XR header
// reserved count bits and per-block reserved bits (single-block reports), FIR
// reserved octets.
func VpC04_Reserved(a []int) {
	c := vpBuild(a)
	enc := append([]byte{}, c.ref...)
	switch c.kind {
	case vpKXR:
		enc[0] |= vpU8() & 0x1f // RFC 3611 2: reserved
		if len(a) > 1 {
			r := vpU8()
			switch a[1] {
			case 1, 2, 3:
				enc[9] |= r & 0xf0 // rsvd nibble next to T
			case 4, 5, 7:
				enc[9] = r // reserved octet
			case 6:
				enc[9] |= r & 0x07 // rsvd bits after ToH
			}
		}
	case vpKFIR:
		for i := 0; i < a[1]; i++ {
			enc[17+8*i], enc[18+8*i], enc[19+8*i] = vpU8(), vpU8(), vpU8() // RFC 5104 4.3.1.1 reserved
		}
	}
	vpDecodeBoth(c, enc, "reserved")
	vpReach("end")
}

// VpC04_APPPadding: APP packets with the padding bit and a[1] padding octets
// (a[0] data octets; data+padding is a multiple of 4); only the last padding
// octet is specified.
func VpC04_APPPadding(a []int) {
	nd, np := a[0], a[1]
	st := vpU8() & 0x1f
	ssrc := vpU32()
	name := vpBytes(4)
	data := vpBytes(nd)
	enc := make([]byte, 12+nd+np)
	enc[0] = 0xa0 | st
	enc[1] = 204
	enc[2], enc[3] = 0, byte(len(enc)/4-1)
	enc[4], enc[5], enc[6], enc[7] = byte(ssrc>>24), byte(ssrc>>16), byte(ssrc>>8), byte(ssrc)
	copy(enc[8:], name)
	copy(enc[12:], data)
	for i := 0; i < np-1; i++ {
		enc[12+nd+i] = vpU8()
	}
	enc[len(enc)-1] = byte(np)
	var p ApplicationDefined
	err := p.Unmarshal(enc)
	vpAssert("C04.app-padding.accepts", err == nil)
	if err == nil {
		vpAssert("C04.app-padding.fields", p.SubType == st && p.SSRC == ssrc && vpStrEq(p.Name, string(name)) && vpBytesEq(p.Data, data))
	}
	ps, e2 := Unmarshal(enc)
	vpAssert("C04.app-padding.datagram", e2 == nil && len(ps) == 1)
	vpReach("end")
}

// VpC04_CCFBStray: not-received metric blocks with stray ECN/offset bits decode to the canonical zero block.
func VpC04_CCFBStray(a []int) {
	w0 := vpU16() & 0x7fff // R=0, stray bits
	w1 := vpU16() | 0x8000 // received
	begin := vpU16()
	vpAssume(begin <= 65534)
	enc := []byte{0x8b, 205, 0, 5, 1, 2, 3, 4, 9, 9, 9, 9, byte(begin >> 8), byte(begin), 0, 1,
		byte(w0 >> 8), byte(w0), byte(w1 >> 8), byte(w1), 7, 7, 7, 7}
	var q CCFeedbackReport
	err := q.Unmarshal(enc)
	ok := err == nil && len(q.ReportBlocks) == 1 && len(q.ReportBlocks[0].MetricBlocks) == 2
	vpAssert("C04.ccfb-stray.accepts", ok)
	if ok {
		m0, m1 := q.ReportBlocks[0].MetricBlocks[0], q.ReportBlocks[0].MetricBlocks[1]
		vpAssert("C04.ccfb-stray.canonical", !m0.Received && m0.ECN == 0 && m0.ArrivalTimeOffset == 0)
		vpAssert("C04.ccfb-stray.received", m1.Received && uint16(m1.ECN) == (w1>>13)&3 && m1.ArrivalTimeOffset == w1&0x1fff)
	}
	vpReach("end")
}

func vpC04Known(a []int, c vpCase) {
	// an RFC-conformant SLI (PT 206/FMT 2) is rejected by the library's decoder, which expects 205 (pinned by tests)
	vpKnown("KF-C04-sli-rfc-encoding", "C04.canonical", a[0] == vpKSLI)
	if p, ok := c.pkt.(*CCFeedbackReport); ok {
		single, wrap := false, false
		for i := range p.ReportBlocks {
			n := len(p.ReportBlocks[i].MetricBlocks)
			if n == 1 {
				single = true
			}
			if n >= 2 && int(p.ReportBlocks[i].BeginSequence)+n-1 > 65535 {
				wrap = true
			}
		}
		vpKnown("KF-C04-ccfb-single-metric", "C04.canonical", single)
		vpKnown("KF-C04-ccfb-seq-wrap", "C04.canonical", wrap)
	}
}
