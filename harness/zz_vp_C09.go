package rtcp

// C09: re-encoding a decoded datagram is stable (decode -> encode -> decode).

// VpC09: one well-framed frame of a[0] octets whose packet type is a[1]
// (0 = anything outside 200..207) and, when a[2] >= 0, whose count/FMT is a[2];
// for XR frames an optional a[3] fixes the type of the first report block;
// everything else symbolic.
func VpC09(a []int) {
	n := a[0]
	b := vpBytes(n)
	vpAssume(b[0]>>6 == 2 && int(b[2])<<8|int(b[3]) == n/4-1)
	if a[1] == 0 {
		vpAssume(b[1] < 200 || b[1] > 207)
	} else {
		vpAssume(int(b[1]) == a[1])
	}
	if a[2] >= 0 {
		vpAssume(int(b[0]&0x1f) == a[2])
	}
	if len(a) > 3 && n > 8 {
		vpAssume(int(b[8]) == a[3])
	}
	if a[1] == 205 && n >= 16 {
		vpAssume(b[0]&0x1f != 15 || (b[14] == 0 && b[15] <= 8))
	}
	ps, err := Unmarshal(b)
	if err != nil {
		vpReach("end")
		return
	}
	vpReach("accepted")
	consistent := true
	for i := 0; i < len(ps); i++ {
		if t, ok := ps[i].(*TransportLayerCC); ok {
			// the property covers TWCC only when the decoded header is consistent with the content
			sz := t.MarshalSize()
			if int(t.Header.Length+1)*4 != sz || t.Header.Padding != (sz != int(t.packetLen())) {
				consistent = false
			}
		}
	}
	vpC09Known(ps)
	out, e2 := Marshal(ps) // a panic here is an implicit assertion failure
	if e2 == nil && consistent {
		// case split on the re-encoded length so that the second decode runs
		// on a buffer of concrete length (the split is exhaustive: asserted)
		handled := false
		for k := 0; k <= n+8; k += 4 {
			if len(out) == k {
				handled = true
				o := out[:k]
				ps2, e3 := Unmarshal(o)
				vpAssert("C09.reencoded-accepted", e3 == nil)
				if e3 == nil {
					vpAssert("C09.decode-encode-decode-stable", vpPktsEq(ps, ps2))
				}
			}
		}
		vpAssert("C09.reencoded-length-in-split", handled)
		vpObserveBytes("out", out)
	}
	vpReach("end")
}

func vpC09Known(ps []Packet) {
	single, wrap, remb0 := false, false, false
	for i := 0; i < len(ps); i++ {
		if p, ok := ps[i].(*CCFeedbackReport); ok {
			for j := range p.ReportBlocks {
				n := len(p.ReportBlocks[j].MetricBlocks)
				if n == 1 {
					single = true
				}
				if n >= 2 && int(p.ReportBlocks[j].BeginSequence)+n-1 > 65535 {
					wrap = true
				}
			}
		}
		if p, ok := ps[i].(*ReceiverEstimatedMaximumBitrate); ok {
			_ = p
			remb0 = true
		}
	}
	vpKnown("KF-C09-ccfb-single-metric", "C09.", single)
	vpKnown("KF-C09-ccfb-seq-wrap", "C09.", wrap)
	_ = remb0
}
