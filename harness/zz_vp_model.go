package rtcp

// Model values, reference encoders (written from the RFC packet diagrams, not
// from the implementation), field-wise equality and reference
// DestinationSSRC lists shared by the C02/C03/C04/C05/C09/C10 harnesses.

// packet kinds (a[0] of the codec harnesses)
const (
	vpKSR = iota + 1
	vpKRR
	vpKSDES
	vpKBYE
	vpKAPP
	vpKNACK
	vpKRRR
	vpKTWCC
	vpKCCFB
	vpKPLI
	vpKSLI
	vpKREMB
	vpKFIR
	vpKXR
	vpKRAW
)

type vpCase struct {
	kind  int
	pkt   Packet          // the model value (pointer)
	fresh func() Packet   // a new zero value of the same concrete type
	eq    func(Packet) bool // field-wise comparison of a decoded packet with the model
	same  func(Packet) bool // dynamic type test
	ref   []byte          // reference encoding per the governing RFC
	dst   []uint32        // reference DestinationSSRC
	pt    uint8
	cnt   uint8 // count / FMT expected in the header
	mask  []bool // don't-care octets of ref (nil = none)
}

// ---- reference byte writers (straight-line, no shared helpers with the library)

func vpPut16(b []byte, i int, v uint16) {
	b[i] = byte(v >> 8)
	b[i+1] = byte(v)
}

func vpPut32(b []byte, i int, v uint32) {
	b[i] = byte(v >> 24)
	b[i+1] = byte(v >> 16)
	b[i+2] = byte(v >> 8)
	b[i+3] = byte(v)
}

func vpPut64(b []byte, i int, v uint64) {
	vpPut32(b, i, uint32(v>>32))
	vpPut32(b, i+4, uint32(v))
}

// common header per RFC 3550 6.4.1: V=2, P, 5-bit count, PT, length in words - 1
func vpRefHeader(b []byte, pad bool, cnt uint8, pt uint8) {
	b[0] = 0x80 | cnt&0x1f
	if pad {
		b[0] |= 0x20
	}
	b[1] = pt
	vpPut16(b, 2, uint16(len(b)/4-1))
}

func vpBytesEq(x, y []byte) bool {
	if len(x) != len(y) {
		return false
	}
	ok := true
	for i := 0; i < len(x); i++ {
		if x[i] != y[i] {
			ok = false
		}
	}
	return ok
}

func vpBytesEqMasked(x, y []byte, mask []bool) bool {
	if len(x) != len(y) {
		return false
	}
	ok := true
	for i := 0; i < len(x); i++ {
		if (mask == nil || !mask[i]) && x[i] != y[i] {
			ok = false
		}
	}
	return ok
}

func vpU32sEq(x, y []uint32) bool {
	if len(x) != len(y) {
		return false
	}
	ok := true
	for i := 0; i < len(x); i++ {
		if x[i] != y[i] {
			ok = false
		}
	}
	return ok
}

func vpStrEq(x, y string) bool {
	if len(x) != len(y) {
		return false
	}
	ok := true
	for i := 0; i < len(x); i++ {
		if x[i] != y[i] {
			ok = false
		}
	}
	return ok
}

// bytes equal up to trailing zero padding of the longer one (RR profile extensions)
func vpBytesEqPadded(dec, orig []byte) bool {
	if len(dec) < len(orig) || len(dec) >= len(orig)+4 {
		return false
	}
	ok := true
	for i := 0; i < len(dec); i++ {
		if i < len(orig) {
			if dec[i] != orig[i] {
				ok = false
			}
		} else if dec[i] != 0 {
			ok = false
		}
	}
	return ok
}

// ---- reception reports

func vpMkReports(n int) []ReceptionReport {
	r := make([]ReceptionReport, n)
	for i := range r {
		tl := vpU32()
		vpAssume(tl < 1<<24)
		r[i] = ReceptionReport{SSRC: vpU32(), FractionLost: vpU8(), TotalLost: tl, LastSequenceNumber: vpU32(), Jitter: vpU32(), LastSenderReport: vpU32(), Delay: vpU32()}
	}
	return r
}

func vpRefReport(b []byte, o int, r ReceptionReport) {
	vpPut32(b, o, r.SSRC)
	b[o+4] = r.FractionLost
	b[o+5] = byte(r.TotalLost >> 16)
	b[o+6] = byte(r.TotalLost >> 8)
	b[o+7] = byte(r.TotalLost)
	vpPut32(b, o+8, r.LastSequenceNumber)
	vpPut32(b, o+12, r.Jitter)
	vpPut32(b, o+16, r.LastSenderReport)
	vpPut32(b, o+20, r.Delay)
}

func vpReportsEq(x, y []ReceptionReport) bool {
	if len(x) != len(y) {
		return false
	}
	ok := true
	for i := 0; i < len(x); i++ {
		if x[i] != y[i] {
			ok = false
		}
	}
	return ok
}

// ---- per-type builders -------------------------------------------------

// SR: a[1] = reports, a[2] = profile extension octets
func vpBuildSR(a []int) vpCase {
	nr, ne := a[1], a[2]
	v := &SenderReport{SSRC: vpU32(), NTPTime: vpU64(), RTPTime: vpU32(), PacketCount: vpU32(), OctetCount: vpU32(), Reports: vpMkReports(nr)}
	if ne > 0 {
		v.ProfileExtensions = vpBytes(ne)
	}
	pad := (4 - ne%4) % 4
	ref := make([]byte, 28+24*nr+ne+pad)
	vpRefHeader(ref, false, uint8(nr), 200)
	vpPut32(ref, 4, v.SSRC)
	vpPut64(ref, 8, v.NTPTime)
	vpPut32(ref, 16, v.RTPTime)
	vpPut32(ref, 20, v.PacketCount)
	vpPut32(ref, 24, v.OctetCount)
	for i := 0; i < nr; i++ {
		vpRefReport(ref, 28+24*i, v.Reports[i])
	}
	for i := 0; i < ne; i++ {
		ref[28+24*nr+i] = v.ProfileExtensions[i]
	}
	dst := make([]uint32, 0, nr+1)
	for i := 0; i < nr; i++ {
		dst = append(dst, v.Reports[i].SSRC)
	}
	dst = append(dst, v.SSRC)
	return vpCase{kind: vpKSR, pkt: v, pt: 200, cnt: uint8(nr), ref: ref, dst: dst,
		fresh: func() Packet { return new(SenderReport) },
		same:  func(p Packet) bool { _, ok := p.(*SenderReport); return ok },
		eq: func(p Packet) bool {
			d, ok := p.(*SenderReport)
			return ok && d.SSRC == v.SSRC && d.NTPTime == v.NTPTime && d.RTPTime == v.RTPTime && d.PacketCount == v.PacketCount &&
				d.OctetCount == v.OctetCount && vpReportsEq(d.Reports, v.Reports) && vpBytesEqPadded(d.ProfileExtensions, v.ProfileExtensions)
		}}
}

// RR: a[1] = reports, a[2] = profile extension octets
func vpBuildRR(a []int) vpCase {
	nr, ne := a[1], a[2]
	v := &ReceiverReport{SSRC: vpU32(), Reports: vpMkReports(nr)}
	if ne > 0 {
		v.ProfileExtensions = vpBytes(ne)
	}
	pad := (4 - ne%4) % 4
	ref := make([]byte, 8+24*nr+ne+pad)
	vpRefHeader(ref, false, uint8(nr), 201)
	vpPut32(ref, 4, v.SSRC)
	for i := 0; i < nr; i++ {
		vpRefReport(ref, 8+24*i, v.Reports[i])
	}
	for i := 0; i < ne; i++ {
		ref[8+24*nr+i] = v.ProfileExtensions[i]
	}
	dst := make([]uint32, 0, nr)
	for i := 0; i < nr; i++ {
		dst = append(dst, v.Reports[i].SSRC)
	}
	return vpCase{kind: vpKRR, pkt: v, pt: 201, cnt: uint8(nr), ref: ref, dst: dst,
		fresh: func() Packet { return new(ReceiverReport) },
		same:  func(p Packet) bool { _, ok := p.(*ReceiverReport); return ok },
		eq: func(p Packet) bool {
			d, ok := p.(*ReceiverReport)
			return ok && d.SSRC == v.SSRC && vpReportsEq(d.Reports, v.Reports) && vpBytesEqPadded(d.ProfileExtensions, v.ProfileExtensions)
		}}
}

// SDES: a[1] = chunks, a[2] = items per chunk, a[3] = text octets per item
func vpBuildSDES(a []int) vpCase {
	nc, ni, nt := a[1], a[2], a[3]
	v := &SourceDescription{}
	for c := 0; c < nc; c++ {
		ch := SourceDescriptionChunk{Source: vpU32()}
		for i := 0; i < ni; i++ {
			t := vpU8()
			vpAssume(t != 0)
			ch.Items = append(ch.Items, SourceDescriptionItem{Type: SDESType(t), Text: string(vpBytes(nt))})
		}
		v.Chunks = append(v.Chunks, ch)
	}
	// RFC 3550 6.5: each chunk = SSRC, items (type, length, text), then one or
	// more null octets up to the next 32-bit boundary
	raw := 4 + ni*(2+nt) + 1
	clen := (raw + 3) / 4 * 4
	ref := make([]byte, 4+nc*clen)
	vpRefHeader(ref, false, uint8(nc), 202)
	for c := 0; c < nc; c++ {
		o := 4 + c*clen
		vpPut32(ref, o, v.Chunks[c].Source)
		o += 4
		for i := 0; i < ni; i++ {
			it := v.Chunks[c].Items[i]
			ref[o] = uint8(it.Type)
			ref[o+1] = uint8(nt)
			for k := 0; k < nt; k++ {
				ref[o+2+k] = it.Text[k]
			}
			o += 2 + nt
		}
	}
	dst := make([]uint32, 0, nc)
	for c := 0; c < nc; c++ {
		dst = append(dst, v.Chunks[c].Source)
	}
	return vpCase{kind: vpKSDES, pkt: v, pt: 202, cnt: uint8(nc), ref: ref, dst: dst,
		fresh: func() Packet { return new(SourceDescription) },
		same:  func(p Packet) bool { _, ok := p.(*SourceDescription); return ok },
		eq: func(p Packet) bool {
			d, ok := p.(*SourceDescription)
			if !ok || len(d.Chunks) != nc {
				return false
			}
			r := true
			for c := 0; c < nc; c++ {
				if d.Chunks[c].Source != v.Chunks[c].Source || len(d.Chunks[c].Items) != ni {
					return false
				}
				for i := 0; i < ni; i++ {
					if d.Chunks[c].Items[i].Type != v.Chunks[c].Items[i].Type || !vpStrEq(d.Chunks[c].Items[i].Text, v.Chunks[c].Items[i].Text) {
						r = false
					}
				}
			}
			return r
		}}
}

// BYE: a[1] = sources, a[2] = reason octets
func vpBuildBYE(a []int) vpCase {
	ns, nr := a[1], a[2]
	v := &Goodbye{}
	for i := 0; i < ns; i++ {
		v.Sources = append(v.Sources, vpU32())
	}
	if nr > 0 {
		v.Reason = string(vpBytes(nr))
	}
	n := 4 + 4*ns
	if nr > 0 {
		n += 1 + nr
	}
	n = (n + 3) / 4 * 4
	ref := make([]byte, n)
	vpRefHeader(ref, false, uint8(ns), 203)
	for i := 0; i < ns; i++ {
		vpPut32(ref, 4+4*i, v.Sources[i])
	}
	if nr > 0 {
		ref[4+4*ns] = uint8(nr)
		for k := 0; k < nr; k++ {
			ref[5+4*ns+k] = v.Reason[k]
		}
	}
	dst := append([]uint32{}, v.Sources...)
	return vpCase{kind: vpKBYE, pkt: v, pt: 203, cnt: uint8(ns), ref: ref, dst: dst,
		fresh: func() Packet { return new(Goodbye) },
		same:  func(p Packet) bool { _, ok := p.(*Goodbye); return ok },
		eq: func(p Packet) bool {
			d, ok := p.(*Goodbye)
			return ok && vpU32sEq(d.Sources, v.Sources) && vpStrEq(d.Reason, v.Reason)
		}}
}

// APP: a[1] = data octets
func vpBuildAPP(a []int) vpCase {
	nd := a[1]
	st := vpU8()
	vpAssume(st <= 31)
	v := &ApplicationDefined{SubType: st, SSRC: vpU32(), Name: string(vpBytes(4))}
	if nd > 0 {
		v.Data = vpBytes(nd)
	}
	pad := (4 - nd%4) % 4
	ref := make([]byte, 12+nd+pad)
	vpRefHeader(ref, pad != 0, st, 204)
	vpPut32(ref, 4, v.SSRC)
	for k := 0; k < 4; k++ {
		ref[8+k] = v.Name[k]
	}
	for k := 0; k < nd; k++ {
		ref[12+k] = v.Data[k]
	}
	var mask []bool
	if pad != 0 {
		// RFC 3550 6.4.1: the last padding octet counts the padding; the others are unspecified
		mask = make([]bool, len(ref))
		for k := 0; k < pad-1; k++ {
			mask[12+nd+k] = true
		}
		ref[len(ref)-1] = uint8(pad)
	}
	return vpCase{kind: vpKAPP, pkt: v, pt: 204, cnt: st, ref: ref, mask: mask, dst: []uint32{v.SSRC},
		fresh: func() Packet { return new(ApplicationDefined) },
		same:  func(p Packet) bool { _, ok := p.(*ApplicationDefined); return ok },
		eq: func(p Packet) bool {
			d, ok := p.(*ApplicationDefined)
			return ok && d.SubType == v.SubType && d.SSRC == v.SSRC && vpStrEq(d.Name, v.Name) && vpBytesEq(d.Data, v.Data)
		}}
}

// NACK: a[1] = pairs
func vpBuildNACK(a []int) vpCase {
	n := a[1]
	v := &TransportLayerNack{SenderSSRC: vpU32(), MediaSSRC: vpU32()}
	for i := 0; i < n; i++ {
		v.Nacks = append(v.Nacks, NackPair{PacketID: vpU16(), LostPackets: PacketBitmap(vpU16())})
	}
	ref := make([]byte, 12+4*n)
	vpRefHeader(ref, false, 1, 205)
	vpPut32(ref, 4, v.SenderSSRC)
	vpPut32(ref, 8, v.MediaSSRC)
	for i := 0; i < n; i++ {
		vpPut16(ref, 12+4*i, v.Nacks[i].PacketID)
		vpPut16(ref, 14+4*i, uint16(v.Nacks[i].LostPackets))
	}
	return vpCase{kind: vpKNACK, pkt: v, pt: 205, cnt: 1, ref: ref, dst: []uint32{v.MediaSSRC},
		fresh: func() Packet { return new(TransportLayerNack) },
		same:  func(p Packet) bool { _, ok := p.(*TransportLayerNack); return ok },
		eq: func(p Packet) bool {
			d, ok := p.(*TransportLayerNack)
			if !ok || d.SenderSSRC != v.SenderSSRC || d.MediaSSRC != v.MediaSSRC || len(d.Nacks) != n {
				return false
			}
			r := true
			for i := 0; i < n; i++ {
				if d.Nacks[i] != v.Nacks[i] {
					r = false
				}
			}
			return r
		}}
}

func vpBuildRRR(a []int) vpCase {
	v := &RapidResynchronizationRequest{SenderSSRC: vpU32(), MediaSSRC: vpU32()}
	ref := make([]byte, 12)
	vpRefHeader(ref, false, 5, 205)
	vpPut32(ref, 4, v.SenderSSRC)
	vpPut32(ref, 8, v.MediaSSRC)
	return vpCase{kind: vpKRRR, pkt: v, pt: 205, cnt: 5, ref: ref, dst: []uint32{v.MediaSSRC},
		fresh: func() Packet { return new(RapidResynchronizationRequest) },
		same:  func(p Packet) bool { _, ok := p.(*RapidResynchronizationRequest); return ok },
		eq: func(p Packet) bool {
			d, ok := p.(*RapidResynchronizationRequest)
			return ok && *d == *v
		}}
}

func vpBuildPLI(a []int) vpCase {
	v := &PictureLossIndication{SenderSSRC: vpU32(), MediaSSRC: vpU32()}
	ref := make([]byte, 12)
	vpRefHeader(ref, false, 1, 206)
	vpPut32(ref, 4, v.SenderSSRC)
	vpPut32(ref, 8, v.MediaSSRC)
	return vpCase{kind: vpKPLI, pkt: v, pt: 206, cnt: 1, ref: ref, dst: []uint32{v.MediaSSRC},
		fresh: func() Packet { return new(PictureLossIndication) },
		same:  func(p Packet) bool { _, ok := p.(*PictureLossIndication); return ok },
		eq: func(p Packet) bool {
			d, ok := p.(*PictureLossIndication)
			return ok && *d == *v
		}}
}

// SLI: a[1] = entries. RFC 4585 6.3.2: PT=PSFB (206), FMT=2.
func vpBuildSLI(a []int) vpCase {
	n := a[1]
	v := &SliceLossIndication{SenderSSRC: vpU32(), MediaSSRC: vpU32()}
	for i := 0; i < n; i++ {
		e := SLIEntry{First: vpU16(), Number: vpU16(), Picture: vpU8()}
		vpAssume(e.First < 8192 && e.Number < 8192 && e.Picture < 64)
		v.SLI = append(v.SLI, e)
	}
	ref := make([]byte, 12+4*n)
	vpRefHeader(ref, false, 2, 206)
	vpPut32(ref, 4, v.SenderSSRC)
	vpPut32(ref, 8, v.MediaSSRC)
	for i := 0; i < n; i++ {
		vpPut32(ref, 12+4*i, uint32(v.SLI[i].First)<<19|uint32(v.SLI[i].Number)<<6|uint32(v.SLI[i].Picture))
	}
	return vpCase{kind: vpKSLI, pkt: v, pt: 206, cnt: 2, ref: ref, dst: []uint32{v.MediaSSRC},
		fresh: func() Packet { return new(SliceLossIndication) },
		same:  func(p Packet) bool { _, ok := p.(*SliceLossIndication); return ok },
		eq: func(p Packet) bool {
			d, ok := p.(*SliceLossIndication)
			if !ok || d.SenderSSRC != v.SenderSSRC || d.MediaSSRC != v.MediaSSRC || len(d.SLI) != n {
				return false
			}
			r := true
			for i := 0; i < n; i++ {
				if d.SLI[i] != v.SLI[i] {
					r = false
				}
			}
			return r
		}}
}

// FIR: a[1] = entries. RFC 5104 4.3.1: PT=206, FMT=4, media SSRC field unused (any value kept).
func vpBuildFIR(a []int) vpCase {
	n := a[1]
	v := &FullIntraRequest{SenderSSRC: vpU32(), MediaSSRC: vpU32()}
	for i := 0; i < n; i++ {
		v.FIR = append(v.FIR, FIREntry{SSRC: vpU32(), SequenceNumber: vpU8()})
	}
	ref := make([]byte, 12+8*n)
	vpRefHeader(ref, false, 4, 206)
	vpPut32(ref, 4, v.SenderSSRC)
	vpPut32(ref, 8, v.MediaSSRC)
	dst := make([]uint32, 0, n)
	for i := 0; i < n; i++ {
		vpPut32(ref, 12+8*i, v.FIR[i].SSRC)
		ref[16+8*i] = v.FIR[i].SequenceNumber
		dst = append(dst, v.FIR[i].SSRC)
	}
	return vpCase{kind: vpKFIR, pkt: v, pt: 206, cnt: 4, ref: ref, dst: dst,
		fresh: func() Packet { return new(FullIntraRequest) },
		same:  func(p Packet) bool { _, ok := p.(*FullIntraRequest); return ok },
		eq: func(p Packet) bool {
			d, ok := p.(*FullIntraRequest)
			if !ok || d.SenderSSRC != v.SenderSSRC || d.MediaSSRC != v.MediaSSRC || len(d.FIR) != n {
				return false
			}
			r := true
			for i := 0; i < n; i++ {
				if d.FIR[i] != v.FIR[i] {
					r = false
				}
			}
			return r
		}}
}

// REMB: a[1] = SSRC entries. The model bitrate is a representable value
// mantissa * 2^exp with an 18-bit mantissa in normal form (C14 covers the
// quantisation of arbitrary floats and mantissa 0).
func vpBuildREMB(a []int) vpCase {
	// a[2] = exponent (0..63), a[3] = position of the mantissa's leading one
	// (17 whenever the exponent is not 0: normal form); the low mantissa bits are symbolic
	n := a[1]
	exp := uint8(a[2])
	p := uint32(a[3])
	man := uint32(1)<<p | vpU32()&(uint32(1)<<p-1)
	v := &ReceiverEstimatedMaximumBitrate{SenderSSRC: vpU32(), Bitrate: vpF32Of(man, exp, p)}
	for i := 0; i < n; i++ {
		v.SSRCs = append(v.SSRCs, vpU32())
	}
	ref := make([]byte, 20+4*n)
	vpRefHeader(ref, false, 15, 206)
	vpPut32(ref, 4, v.SenderSSRC)
	ref[12], ref[13], ref[14], ref[15] = 'R', 'E', 'M', 'B'
	ref[16] = uint8(n)
	ref[17] = exp<<2 | uint8(man>>16)
	ref[18] = uint8(man >> 8)
	ref[19] = uint8(man)
	for i := 0; i < n; i++ {
		vpPut32(ref, 20+4*i, v.SSRCs[i])
	}
	dst := append([]uint32{}, v.SSRCs...)
	return vpCase{kind: vpKREMB, pkt: v, pt: 206, cnt: 15, ref: ref, dst: dst,
		fresh: func() Packet { return new(ReceiverEstimatedMaximumBitrate) },
		same:  func(p Packet) bool { _, ok := p.(*ReceiverEstimatedMaximumBitrate); return ok },
		eq: func(p Packet) bool {
			d, ok := p.(*ReceiverEstimatedMaximumBitrate)
			return ok && d.SenderSSRC == v.SenderSSRC && d.Bitrate == v.Bitrate && vpU32sEq(d.SSRCs, v.SSRCs)
		}}
}

// CCFB: a[1] = report blocks, a[2] = metric blocks per report block
func vpBuildCCFB(a []int) vpCase {
	nb, nm := a[1], a[2]
	v := &CCFeedbackReport{SenderSSRC: vpU32(), ReportTimestamp: vpU32()}
	for b := 0; b < nb; b++ {
		blk := CCFeedbackReportBlock{MediaSSRC: vpU32(), BeginSequence: vpU16()}
		for m := 0; m < nm; m++ {
			mb := CCFeedbackMetricBlock{Received: vpBool(), ECN: ECN(vpU8()), ArrivalTimeOffset: vpU16()}
			vpAssume(mb.ECN < 4 && mb.ArrivalTimeOffset < 8192 && (mb.Received || (mb.ECN == 0 && mb.ArrivalTimeOffset == 0)))
			blk.MetricBlocks = append(blk.MetricBlocks, mb)
		}
		v.ReportBlocks = append(v.ReportBlocks, blk)
	}
	// RFC 8888 3.1: per block SSRC, begin_seq, num_reports, metric blocks padded to 32 bits
	bl := 8 + 2*((nm+1)/2*2)
	ref := make([]byte, 8+nb*bl+4)
	vpRefHeader(ref, false, 11, 205)
	vpPut32(ref, 4, v.SenderSSRC)
	mask := make([]bool, len(ref))
	dst := make([]uint32, 0, nb)
	for b := 0; b < nb; b++ {
		o := 8 + b*bl
		vpPut32(ref, o, v.ReportBlocks[b].MediaSSRC)
		vpPut16(ref, o+4, v.ReportBlocks[b].BeginSequence)
		// num_reports: convention disputed between the RFC text and the pinned
		// upstream fixtures; not asserted here (see DESIGN C03)
		mask[o+6], mask[o+7] = true, true
		for m := 0; m < nm; m++ {
			mb := v.ReportBlocks[b].MetricBlocks[m]
			w := mb.ArrivalTimeOffset | uint16(mb.ECN)<<13
			if mb.Received {
				w |= 0x8000
			}
			vpPut16(ref, o+8+2*m, w)
		}
		dst = append(dst, v.ReportBlocks[b].MediaSSRC)
	}
	vpPut32(ref, 8+nb*bl, v.ReportTimestamp)
	return vpCase{kind: vpKCCFB, pkt: v, pt: 205, cnt: 11, ref: ref, mask: mask, dst: dst,
		fresh: func() Packet { return new(CCFeedbackReport) },
		same:  func(p Packet) bool { _, ok := p.(*CCFeedbackReport); return ok },
		eq: func(p Packet) bool {
			d, ok := p.(*CCFeedbackReport)
			if !ok || d.SenderSSRC != v.SenderSSRC || d.ReportTimestamp != v.ReportTimestamp || len(d.ReportBlocks) != nb {
				return false
			}
			r := true
			for b := 0; b < nb; b++ {
				x, y := d.ReportBlocks[b], v.ReportBlocks[b]
				if x.MediaSSRC != y.MediaSSRC || x.BeginSequence != y.BeginSequence || len(x.MetricBlocks) != nm {
					return false
				}
				for m := 0; m < nm; m++ {
					if x.MetricBlocks[m] != y.MetricBlocks[m] {
						r = false
					}
				}
			}
			return r
		}}
}

// Raw: a[1] = octets (multiple of 4, >= 4); header version 2 and consistent length
func vpBuildRAW(a []int) vpCase {
	n := a[1]
	b := vpBytes(n)
	vpAssume(b[0]>>6 == 2 && int(b[2])<<8|int(b[3]) == n/4-1)
	// a packet type/format the dispatcher does not know
	vpAssume(b[1] < 200 || b[1] > 207)
	v := RawPacket(b)
	ref := append([]byte{}, b...)
	return vpCase{kind: vpKRAW, pkt: &v, pt: b[1], cnt: b[0] & 0x1f, ref: ref, dst: []uint32{},
		fresh: func() Packet { return new(RawPacket) },
		same:  func(p Packet) bool { _, ok := p.(*RawPacket); return ok },
		eq: func(p Packet) bool {
			d, ok := p.(*RawPacket)
			return ok && vpBytesEq([]byte(*d), b)
		}}
}

func vpBuild(a []int) vpCase {
	switch a[0] {
	case vpKSR:
		return vpBuildSR(a)
	case vpKRR:
		return vpBuildRR(a)
	case vpKSDES:
		return vpBuildSDES(a)
	case vpKBYE:
		return vpBuildBYE(a)
	case vpKAPP:
		return vpBuildAPP(a)
	case vpKNACK:
		return vpBuildNACK(a)
	case vpKRRR:
		return vpBuildRRR(a)
	case vpKTWCC:
		return vpBuildTWCC(a)
	case vpKCCFB:
		return vpBuildCCFB(a)
	case vpKPLI:
		return vpBuildPLI(a)
	case vpKSLI:
		return vpBuildSLI(a)
	case vpKREMB:
		return vpBuildREMB(a)
	case vpKFIR:
		return vpBuildFIR(a)
	case vpKXR:
		return vpBuildXR(a)
	case vpKRAW:
		return vpBuildRAW(a)
	}
	panic("unknown kind")
}
