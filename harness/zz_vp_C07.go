package rtcp

// C07: packets are dispatched to the right Go type; decoders reject foreign types.

// the dispatch table, written out from the property statement
func vpExpectKind(pt, cnt uint8) int {
	switch pt {
	case 200:
		return vpKSR
	case 201:
		return vpKRR
	case 202:
		return vpKSDES
	case 203:
		return vpKBYE
	case 204:
		return vpKAPP
	case 205:
		switch cnt {
		case 1:
			return vpKNACK
		case 5:
			return vpKRRR
		case 11:
			return vpKCCFB
		case 15:
			return vpKTWCC
		}
	case 206:
		switch cnt {
		case 1:
			return vpKPLI
		case 2:
			return vpKSLI
		case 4:
			return vpKFIR
		case 15:
			return vpKREMB
		}
	case 207:
		return vpKXR
	}
	return vpKRAW
}

func vpKindOf(p Packet) int {
	switch p.(type) {
	case *SenderReport:
		return vpKSR
	case *ReceiverReport:
		return vpKRR
	case *SourceDescription:
		return vpKSDES
	case *Goodbye:
		return vpKBYE
	case *ApplicationDefined:
		return vpKAPP
	case *TransportLayerNack:
		return vpKNACK
	case *RapidResynchronizationRequest:
		return vpKRRR
	case *TransportLayerCC:
		return vpKTWCC
	case *CCFeedbackReport:
		return vpKCCFB
	case *PictureLossIndication:
		return vpKPLI
	case *SliceLossIndication:
		return vpKSLI
	case *ReceiverEstimatedMaximumBitrate:
		return vpKREMB
	case *FullIntraRequest:
		return vpKFIR
	case *ExtendedReport:
		return vpKXR
	case *RawPacket:
		return vpKRAW
	}
	return 0
}

// VpC07_Dispatch: one well-framed frame of a[0] octets; packet type, count/FMT
// and body symbolic (a[1] restricts the packet type to keep queries small:
// 0 = anything outside 200..207, otherwise the packet type itself).
func VpC07_Dispatch(a []int) {
	n := a[0]
	b := vpBytes(n)
	vpAssume(b[0]>>6 == 2 && int(b[2])<<8|int(b[3]) == n/4-1)
	if a[1] == 0 {
		vpAssume(b[1] < 200 || b[1] > 207)
	} else {
		vpAssume(int(b[1]) == a[1])
	}
	if a[1] == 205 && n >= 16 {
		vpAssume(b[0]&0x1f != 15 || (b[14] == 0 && b[15] <= 8)) // TWCC status count bound
	}
	ps, err := Unmarshal(b)
	if err == nil {
		vpAssert("C07.one-packet", len(ps) == 1)
		if len(ps) == 1 {
			want := vpExpectKind(b[1], b[0]&0x1f)
			got := vpKindOf(ps[0])
			vpAssert("C07.dispatch-table", got == want)
			if r, ok := ps[0].(*RawPacket); ok {
				vpAssert("C07.raw-verbatim", vpBytesEq([]byte(*r), b))
				vpReach("row-raw")
			}
			vpObserveU64("kind", uint64(got))
		}
	}
	vpReach("end")
}

// VpC07_Foreign: a[0] = decoder kind T, a[1:] = build arguments of a packet of
// another kind U; T's own decoder must reject U's RFC encoding.
func VpC07_Foreign(a []int) {
	t := a[0]
	c := vpBuild(a[1:])
	var d Packet
	switch t {
	case vpKSR:
		d = new(SenderReport)
	case vpKRR:
		d = new(ReceiverReport)
	case vpKSDES:
		d = new(SourceDescription)
	case vpKBYE:
		d = new(Goodbye)
	case vpKAPP:
		d = new(ApplicationDefined)
	case vpKNACK:
		d = new(TransportLayerNack)
	case vpKRRR:
		d = new(RapidResynchronizationRequest)
	case vpKTWCC:
		d = new(TransportLayerCC)
	case vpKCCFB:
		d = new(CCFeedbackReport)
	case vpKPLI:
		d = new(PictureLossIndication)
	case vpKSLI:
		d = new(SliceLossIndication)
	case vpKREMB:
		d = new(ReceiverEstimatedMaximumBitrate)
	case vpKFIR:
		d = new(FullIntraRequest)
	case vpKXR:
		d = new(ExtendedReport)
	}
	// CCFeedbackReport.Unmarshal checks PT 205 only, not FMT 11 (pinned by TestCCFeedbackOverflow)
	vpKnown("KF-C07-ccfb-any-fmt", "C07.foreign-rejected", t == vpKCCFB && c.pt == 205)
	err := d.Unmarshal(c.ref)
	vpAssert("C07.foreign-rejected", err != nil)
	vpObserveBool("err", err != nil)
	vpReach("end")
}

// VpC07_Own: every type's Marshal output is dispatched back to that same type
// (a = build arguments of a minimal well-formed packet).
func VpC07_Own(a []int) {
	c := vpBuild(a)
	// SLI is marshalled as 205/2, which the dispatcher returns as RawPacket (pinned by tests)
	vpKnown("KF-C07-sli-own-output", "C07.own-output", a[0] == vpKSLI)
	if p, ok := c.pkt.(*CCFeedbackReport); ok {
		wrap := false
		for i := range p.ReportBlocks {
			n := len(p.ReportBlocks[i].MetricBlocks)
			if n >= 2 && int(p.ReportBlocks[i].BeginSequence)+n-1 > 65535 {
				wrap = true
			}
		}
		// the decoder rejects the library's own output when a block crosses 65535->0
		vpKnown("KF-C07-ccfb-seq-wrap", "C07.own-output-accepted", wrap)
	}
	out, err := c.pkt.Marshal()
	if err == nil {
		ps, e2 := Unmarshal(out)
		vpAssert("C07.own-output-accepted", e2 == nil && len(ps) == 1)
		if e2 == nil && len(ps) == 1 {
			vpAssert("C07.own-output-same-type", c.same(ps[0]))
		}
	}
	vpReach("end")
}
