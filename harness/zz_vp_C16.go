package rtcp

// C16: fixed-width wire units encode/decode bijectively over their whole domain.

// VpC16_HeaderDecode: all 2^32 raw header words.
func VpC16_HeaderDecode(a []int) {
	raw := []byte{vpU8(), vpU8(), vpU8(), vpU8()}
	var h Header
	err := h.Unmarshal(raw)
	vpAssert("C16.header.reject-iff-version", (err != nil) == (raw[0]>>6 != 2))
	if err == nil {
		vpAssert("C16.header.fields", h.Padding == (raw[0]&0x20 != 0) && h.Count == raw[0]&0x1f &&
			uint8(h.Type) == raw[1] && h.Length == uint16(raw[2])<<8|uint16(raw[3]))
		out, e2 := h.Marshal()
		vpAssert("C16.header.reencode-ok", e2 == nil && len(out) == 4)
		if e2 == nil && len(out) == 4 {
			vpAssert("C16.header.canon", out[0] == raw[0] && out[1] == raw[1] && out[2] == raw[2] && out[3] == raw[3])
			vpObserveBytes("out", out)
		}
	}
	vpObserveBool("err", err != nil)
	vpReach("end")
}

// VpC16_HeaderEncode: all 2^33 field combinations.
func VpC16_HeaderEncode(a []int) {
	h := Header{Padding: vpBool(), Count: vpU8(), Type: PacketType(vpU8()), Length: vpU16()}
	out, err := h.Marshal()
	vpAssert("C16.header.count-limit", (err != nil) == (h.Count > 31))
	if err != nil {
		vpAssert("C16.header.no-bytes-on-error", out == nil)
	} else {
		vpAssert("C16.header.len4", len(out) == 4)
		var h2 Header
		e2 := h2.Unmarshal(out)
		vpAssert("C16.header.roundtrip", e2 == nil && h2 == h)
		vpObserveBytes("out", out)
	}
	vpReach("end")
}

// VpC16_HeaderShort: buffers of fewer than 4 octets are rejected.
func VpC16_HeaderShort(a []int) {
	b := vpBytes(a[0])
	var h Header
	vpAssert("C16.header.short-rejected", h.Unmarshal(b) != nil)
	vpReach("end")
}
