package rtcp

// C16: fixed-width wire units encode/decode bijectively over their whole domain.

// VpC16_HeaderDecode: all 2^32 raw header words.
func VpC16_HeaderDecode(a []int) {
	raw := []byte{vpU8(), vpU8(), vpU8(), vpU8()}
	var h Header
	err := h.Unmarshal(raw)
	vpAssert("C16.header.reject-iff-version", (err != nil) == (raw[0]>>6 != 2))
	if err == nil {
		vpAssert("C16.header.fields", h.Padding == (raw[0]&0x20 != 0) && h.Count == raw[0]&0x1f &&
			uint8(h.Type) == raw[1] && h.Length == uint16(raw[2])<<8|uint16(raw[3]))
		out, e2 := h.Marshal()
		vpAssert("C16.header.reencode-ok", e2 == nil && len(out) == 4)
		if e2 == nil && len(out) == 4 {
			vpAssert("C16.header.canon", out[0] == raw[0] && out[1] == raw[1] && out[2] == raw[2] && out[3] == raw[3])
			vpObserveBytes("out", out)
		}
	}
	vpObserveBool("err", err != nil)
	vpReach("end")
}

// VpC16_HeaderEncode: all 2^33 field combinations.
func VpC16_HeaderEncode(a []int) {
	h := Header{Padding: vpBool(), Count: vpU8(), Type: PacketType(vpU8()), Length: vpU16()}
	out, err := h.Marshal()
	vpAssert("C16.header.count-limit", (err != nil) == (h.Count > 31))
	if err != nil {
		vpAssert("C16.header.no-bytes-on-error", out == nil)
	} else {
		vpAssert("C16.header.len4", len(out) == 4)
		var h2 Header
		e2 := h2.Unmarshal(out)
		vpAssert("C16.header.roundtrip", e2 == nil && h2 == h)
		vpObserveBytes("out", out)
	}
	vpReach("end")
}

// VpC16_HeaderShort: buffers of fewer than 4 octets are rejected.
func VpC16_HeaderShort(a []int) {
	b := vpBytes(a[0])
	var h Header
	vpAssert("C16.header.short-rejected", h.Unmarshal(b) != nil)
	vpReach("end")
}

// ---- TWCC run-length chunk: all 2^16 words, all in-range field values.
func VpC16_RunLengthDecode(a []int) {
	raw := []byte{vpU8(), vpU8()}
	var c RunLengthChunk
	err := c.Unmarshal(raw)
	vpAssert("C16.rlc.decode-ok", err == nil)
	w := uint16(raw[0])<<8 | uint16(raw[1])
	vpAssert("C16.rlc.fields", c.Type == TypeTCCRunLengthChunk && c.PacketStatusSymbol == (w>>13)&3 && c.RunLength == w&0x1FFF)
	out, e2 := c.Marshal()
	vpAssert("C16.rlc.reencode-ok", e2 == nil && len(out) == 2)
	if e2 == nil && len(out) == 2 && w&0x8000 == 0 {
		vpAssert("C16.rlc.canon", out[0] == raw[0] && out[1] == raw[1])
	}
	vpObserveU64("sym", uint64(c.PacketStatusSymbol))
	vpObserveU64("run", uint64(c.RunLength))
	vpReach("end")
}

func VpC16_RunLengthEncode(a []int) {
	c := RunLengthChunk{PacketStatusSymbol: vpU16(), RunLength: vpU16()}
	vpAssume(c.PacketStatusSymbol < 4 && c.RunLength < 8192)
	out, err := c.Marshal()
	vpAssert("C16.rlc.encode-ok", err == nil && len(out) == 2)
	if err == nil && len(out) == 2 {
		vpAssert("C16.rlc.typebit", out[0]&0x80 == 0)
		var d RunLengthChunk
		e2 := d.Unmarshal(out)
		vpAssert("C16.rlc.roundtrip", e2 == nil && d.PacketStatusSymbol == c.PacketStatusSymbol && d.RunLength == c.RunLength && d.Type == TypeTCCRunLengthChunk)
		vpObserveBytes("out", out)
	}
	vpReach("end")
}

func VpC16_ChunkShort(a []int) {
	b := vpBytes(a[0])
	var c RunLengthChunk
	var v StatusVectorChunk
	vpAssert("C16.chunk.len-rejected", c.Unmarshal(b) != nil && v.Unmarshal(b) != nil)
	vpReach("end")
}

// ---- TWCC status vector chunk.
func VpC16_StatusVectorDecode(a []int) {
	raw := []byte{vpU8(), vpU8()}
	vpAssume(raw[0]&0x80 != 0)
	var c StatusVectorChunk
	err := c.Unmarshal(raw)
	vpAssert("C16.svc.decode-ok", err == nil)
	w := uint16(raw[0])<<8 | uint16(raw[1])
	if w&0x4000 == 0 {
		ok := c.SymbolSize == TypeTCCSymbolSizeOneBit && len(c.SymbolList) == 14
		if ok {
			for i := 0; i < 14; i++ {
				ok = ok && c.SymbolList[i] == (w>>(13-uint(i)))&1
			}
		}
		vpAssert("C16.svc.onebit-symbols", ok)
	} else {
		ok := c.SymbolSize == TypeTCCSymbolSizeTwoBit && len(c.SymbolList) == 7
		if ok {
			for i := 0; i < 7; i++ {
				ok = ok && c.SymbolList[i] == (w>>(12-2*uint(i)))&3
			}
		}
		vpAssert("C16.svc.twobit-symbols", ok)
	}
	vpAssert("C16.svc.type", c.Type == TypeTCCStatusVectorChunk)
	out, e2 := c.Marshal()
	vpAssert("C16.svc.reencode-ok", e2 == nil && len(out) == 2)
	if e2 == nil && len(out) == 2 {
		vpAssert("C16.svc.canon", out[0] == raw[0] && out[1] == raw[1])
		vpObserveBytes("out", out)
	}
	vpReach("end")
}

func VpC16_StatusVectorEncode(a []int) {
	two := a[0] == 1
	n := 14
	lim := uint16(2)
	if two {
		n = 7
		lim = 4
	}
	c := StatusVectorChunk{SymbolSize: uint16(a[0])}
	for i := 0; i < n; i++ {
		s := vpU16()
		vpAssume(s < lim)
		c.SymbolList = append(c.SymbolList, s)
	}
	out, err := c.Marshal()
	vpAssert("C16.svc.encode-ok", err == nil && len(out) == 2)
	if err == nil && len(out) == 2 {
		vpAssert("C16.svc.typebits", out[0]&0x80 != 0 && (out[0]&0x40 != 0) == two)
		var d StatusVectorChunk
		e2 := d.Unmarshal(out)
		ok := e2 == nil && d.SymbolSize == c.SymbolSize && len(d.SymbolList) == n
		if ok {
			for i := 0; i < n; i++ {
				ok = ok && d.SymbolList[i] == c.SymbolList[i]
			}
		}
		vpAssert("C16.svc.roundtrip", ok)
	}
	vpReach("end")
}

// ---- receive deltas.
func VpC16_RecvDeltaDecode(a []int) {
	n := a[0]
	raw := vpBytes(n)
	var d RecvDelta
	err := d.Unmarshal(raw)
	if n != 1 && n != 2 {
		vpAssert("C16.delta.len-rejected", err != nil)
		vpReach("end")
		return
	}
	vpAssert("C16.delta.decode-ok", err == nil)
	if n == 1 {
		vpAssert("C16.delta.small", d.Type == TypeTCCPacketReceivedSmallDelta && d.Delta == 250*int64(raw[0]))
	} else {
		vpAssert("C16.delta.large", d.Type == TypeTCCPacketReceivedLargeDelta && d.Delta == 250*int64(int16(uint16(raw[0])<<8|uint16(raw[1]))))
	}
	out, e2 := d.Marshal()
	vpAssert("C16.delta.reencode-ok", e2 == nil && len(out) == n)
	if e2 == nil && len(out) == n {
		ok := true
		for i := 0; i < n; i++ {
			ok = ok && out[i] == raw[i]
		}
		vpAssert("C16.delta.canon", ok)
	}
	vpObserveU64("delta", uint64(d.Delta))
	vpReach("end")
}

// all (Type, wire value) pairs: encode(250*v) decodes back to 250*v.
func VpC16_RecvDeltaEncode(a []int) {
	typ := uint16(a[0])
	v := int64(int16(vpU16()))
	if typ == TypeTCCPacketReceivedSmallDelta {
		vpAssume(v >= 0 && v <= 255)
	}
	d := RecvDelta{Type: typ, Delta: 250 * v}
	out, err := d.Marshal()
	vpAssert("C16.delta.encode-ok", err == nil)
	if err == nil {
		var e RecvDelta
		e2 := e.Unmarshal(out)
		vpAssert("C16.delta.roundtrip", e2 == nil && e.Type == typ && e.Delta == d.Delta)
	}
	vpReach("end")
}

// ---- reception report (24 octets, 24-bit cumulative loss).
func VpC16_ReceptionReportDecode(a []int) {
	raw := vpBytes(24)
	var r ReceptionReport
	err := r.Unmarshal(raw)
	vpAssert("C16.rr.decode-ok", err == nil)
	be32 := func(i int) uint32 {
		return uint32(raw[i])<<24 | uint32(raw[i+1])<<16 | uint32(raw[i+2])<<8 | uint32(raw[i+3])
	}
	vpAssert("C16.rr.fields", r.SSRC == be32(0) && r.FractionLost == raw[4] &&
		r.TotalLost == uint32(raw[5])<<16|uint32(raw[6])<<8|uint32(raw[7]) &&
		r.LastSequenceNumber == be32(8) && r.Jitter == be32(12) && r.LastSenderReport == be32(16) && r.Delay == be32(20))
	out, e2 := r.Marshal()
	vpAssert("C16.rr.reencode-ok", e2 == nil && len(out) == 24)
	if e2 == nil && len(out) == 24 {
		ok := true
		for i := 0; i < 24; i++ {
			ok = ok && out[i] == raw[i]
		}
		vpAssert("C16.rr.canon", ok)
		vpObserveBytes("out", out)
	}
	vpReach("end")
}

func VpC16_ReceptionReportEncode(a []int) {
	r := ReceptionReport{SSRC: vpU32(), FractionLost: vpU8(), TotalLost: vpU32(), LastSequenceNumber: vpU32(), Jitter: vpU32(), LastSenderReport: vpU32(), Delay: vpU32()}
	out, err := r.Marshal()
	vpAssert("C16.rr.loss-limit", (err != nil) == (r.TotalLost >= 1<<24))
	if err == nil {
		vpAssert("C16.rr.len24", len(out) == 24)
		var d ReceptionReport
		e2 := d.Unmarshal(out)
		vpAssert("C16.rr.roundtrip", e2 == nil && d == r)
	} else {
		vpAssert("C16.rr.no-bytes-on-error", out == nil)
	}
	vpObserveBool("err", err != nil)
	vpReach("end")
}

func VpC16_ReceptionReportShort(a []int) {
	raw := vpBytes(a[0])
	var r ReceptionReport
	vpAssert("C16.rr.short-rejected", r.Unmarshal(raw) != nil)
	vpReach("end")
}

// ---- RFC 8888 metric block through the public packet API (two-entry block).
func VpC16_MetricBlockEncode(a []int) {
	m0 := CCFeedbackMetricBlock{Received: vpBool(), ECN: ECN(vpU8()), ArrivalTimeOffset: vpU16()}
	m1 := CCFeedbackMetricBlock{Received: vpBool(), ECN: ECN(vpU8()), ArrivalTimeOffset: vpU16()}
	canon := func(m CCFeedbackMetricBlock) bool {
		return m.ECN < 4 && m.ArrivalTimeOffset < 8192 && (m.Received || (m.ECN == 0 && m.ArrivalTimeOffset == 0))
	}
	vpAssume(canon(m0) && canon(m1))
	begin := vpU16()
	vpAssume(begin <= 65534)
	p := CCFeedbackReport{SenderSSRC: vpU32(), ReportTimestamp: vpU32(), ReportBlocks: []CCFeedbackReportBlock{{MediaSSRC: vpU32(), BeginSequence: begin, MetricBlocks: []CCFeedbackMetricBlock{m0, m1}}}}
	out, err := p.Marshal()
	vpAssert("C16.ccfb.encode-ok", err == nil && len(out) == 24)
	if err == nil && len(out) == 24 {
		w0 := uint16(out[16])<<8 | uint16(out[17])
		exp := m0.ArrivalTimeOffset | uint16(m0.ECN)<<13
		if m0.Received {
			exp |= 0x8000
		}
		vpAssert("C16.ccfb.metric-layout", w0 == exp)
		var q CCFeedbackReport
		e2 := q.Unmarshal(out)
		ok := e2 == nil && len(q.ReportBlocks) == 1 && len(q.ReportBlocks[0].MetricBlocks) == 2
		if ok {
			ok = q.ReportBlocks[0].MetricBlocks[0] == m0 && q.ReportBlocks[0].MetricBlocks[1] == m1
		}
		vpAssert("C16.ccfb.roundtrip", ok)
		vpObserveBytes("out", out)
	}
	vpReach("end")
}

func VpC16_MetricBlockDecode(a []int) {
	w0, w1 := vpU16(), vpU16()
	begin := vpU16()
	vpAssume(begin <= 65534)
	raw := []byte{0x8b, 205, 0, 5, 1, 2, 3, 4, 9, 9, 9, 9, byte(begin >> 8), byte(begin), 0, 1,
		byte(w0 >> 8), byte(w0), byte(w1 >> 8), byte(w1), 7, 7, 7, 7}
	var q CCFeedbackReport
	err := q.Unmarshal(raw)
	ok := err == nil && len(q.ReportBlocks) == 1 && len(q.ReportBlocks[0].MetricBlocks) == 2
	vpAssert("C16.ccfb.decode-ok", ok)
	if ok {
		m := q.ReportBlocks[0].MetricBlocks[0]
		if w0&0x8000 != 0 {
			vpAssert("C16.ccfb.decode-received", m.Received && uint16(m.ECN) == (w0>>13)&3 && m.ArrivalTimeOffset == w0&0x1FFF)
		} else {
			vpAssert("C16.ccfb.decode-lost", !m.Received && m.ECN == 0 && m.ArrivalTimeOffset == 0)
		}
		out, e2 := q.Marshal()
		vpAssert("C16.ccfb.reencode-ok", e2 == nil && len(out) == 24)
		if e2 == nil && len(out) == 24 && (w0&0x8000 != 0 || w0 == 0) && (w1&0x8000 != 0 || w1 == 0) {
			same := true
			for i := 0; i < 24; i++ {
				same = same && out[i] == raw[i]
			}
			vpAssert("C16.ccfb.canon", same)
		}
	}
	vpReach("end")
}

// ---- XR RLE chunk accessors vs RFC 3611 4.1.1-4.1.3.
func VpC16_XRChunk(a []int) {
	w := vpU16()
	c := Chunk(w)
	t := c.Type()
	rt, err := c.RunType()
	v := c.Value()
	switch {
	case w == 0:
		vpAssert("C16.xrchunk.null", t == TerminatingNullChunkType && err != nil && v == 0)
	case w&0x8000 == 0:
		vpAssert("C16.xrchunk.run", t == RunLengthChunkType && err == nil && rt == uint(w>>14)&1 && v == uint(w&0x3FFF))
	default:
		vpAssert("C16.xrchunk.bitvector", t == BitVectorChunkType && err != nil && v == uint(w&0x7FFF))
	}
	vpObserveU64("type", uint64(t))
	vpObserveU64("value", uint64(v))
	vpReach("end")
}

// ---- NACK pair through a single-entry packet.
func VpC16_NackPair(a []int) {
	p := TransportLayerNack{SenderSSRC: vpU32(), MediaSSRC: vpU32(), Nacks: []NackPair{{PacketID: vpU16(), LostPackets: PacketBitmap(vpU16())}}}
	out, err := p.Marshal()
	vpAssert("C16.nack.encode-ok", err == nil && len(out) == 16)
	if err == nil && len(out) == 16 {
		vpAssert("C16.nack.layout", uint16(out[12])<<8|uint16(out[13]) == p.Nacks[0].PacketID && uint16(out[14])<<8|uint16(out[15]) == uint16(p.Nacks[0].LostPackets))
		var q TransportLayerNack
		e2 := q.Unmarshal(out)
		vpAssert("C16.nack.roundtrip", e2 == nil && len(q.Nacks) == 1 && q.Nacks[0] == p.Nacks[0] && q.SenderSSRC == p.SenderSSRC && q.MediaSSRC == p.MediaSSRC)
		vpObserveBytes("out", out)
	}
	// decode-then-encode on an arbitrary entry word
	raw := []byte{0x81, 205, 0, 3, 0, 0, 0, 1, 0, 0, 0, 2, vpU8(), vpU8(), vpU8(), vpU8()}
	var r TransportLayerNack
	e3 := r.Unmarshal(raw)
	vpAssert("C16.nack.decode-ok", e3 == nil && len(r.Nacks) == 1)
	if e3 == nil && len(r.Nacks) == 1 {
		o2, e4 := r.Marshal()
		ok := e4 == nil && len(o2) == 16
		if ok {
			for i := 0; i < 16; i++ {
				ok = ok && o2[i] == raw[i]
			}
		}
		vpAssert("C16.nack.canon", ok)
	}
	vpReach("end")
}

// ---- SLI entry (13+13+6 bits) through a single-entry packet.
func VpC16_SLIEntry(a []int) {
	e := SLIEntry{First: vpU16(), Number: vpU16(), Picture: vpU8()}
	vpAssume(e.First < 8192 && e.Number < 8192 && e.Picture < 64)
	p := SliceLossIndication{SenderSSRC: vpU32(), MediaSSRC: vpU32(), SLI: []SLIEntry{e}}
	out, err := p.Marshal()
	vpAssert("C16.sli.encode-ok", err == nil && len(out) == 16)
	if err == nil && len(out) == 16 {
		w := uint32(out[12])<<24 | uint32(out[13])<<16 | uint32(out[14])<<8 | uint32(out[15])
		vpAssert("C16.sli.layout", w == uint32(e.First)<<19|uint32(e.Number)<<6|uint32(e.Picture))
		var q SliceLossIndication
		e2 := q.Unmarshal(out)
		vpAssert("C16.sli.roundtrip", e2 == nil && len(q.SLI) == 1 && q.SLI[0] == e)
	}
	// decode-then-encode over all 2^32 entry words (own decoder, header as the library writes it)
	raw := []byte{out[0], out[1], 0, 3, 0, 0, 0, 1, 0, 0, 0, 2, vpU8(), vpU8(), vpU8(), vpU8()}
	var r SliceLossIndication
	e3 := r.Unmarshal(raw)
	vpAssert("C16.sli.decode-ok", e3 == nil && len(r.SLI) == 1)
	if e3 == nil && len(r.SLI) == 1 {
		o2, e4 := r.Marshal()
		ok := e4 == nil && len(o2) == 16
		if ok {
			for i := 12; i < 16; i++ {
				ok = ok && o2[i] == raw[i]
			}
		}
		vpAssert("C16.sli.canon", ok)
	}
	vpReach("end")
}

// ---- FIR entry (32-bit SSRC, 8-bit sequence number, 24 reserved bits).
func VpC16_FIREntry(a []int) {
	e := FIREntry{SSRC: vpU32(), SequenceNumber: vpU8()}
	p := FullIntraRequest{SenderSSRC: vpU32(), MediaSSRC: vpU32(), FIR: []FIREntry{e}}
	out, err := p.Marshal()
	vpAssert("C16.fir.encode-ok", err == nil && len(out) == 20)
	if err == nil && len(out) == 20 {
		vpAssert("C16.fir.layout", uint32(out[12])<<24|uint32(out[13])<<16|uint32(out[14])<<8|uint32(out[15]) == e.SSRC &&
			out[16] == e.SequenceNumber && out[17] == 0 && out[18] == 0 && out[19] == 0)
		var q FullIntraRequest
		e2 := q.Unmarshal(out)
		vpAssert("C16.fir.roundtrip", e2 == nil && len(q.FIR) == 1 && q.FIR[0] == e)
		vpObserveBytes("out", out)
	}
	raw := []byte{0x84, 206, 0, 4, 0, 0, 0, 1, 0, 0, 0, 2, vpU8(), vpU8(), vpU8(), vpU8(), vpU8(), 0, 0, 0}
	var r FullIntraRequest
	e3 := r.Unmarshal(raw)
	vpAssert("C16.fir.decode-ok", e3 == nil && len(r.FIR) == 1)
	if e3 == nil && len(r.FIR) == 1 {
		o2, e4 := r.Marshal()
		ok := e4 == nil && len(o2) == 20
		if ok {
			for i := 0; i < 20; i++ {
				ok = ok && o2[i] == raw[i]
			}
		}
		vpAssert("C16.fir.canon", ok)
	}
	vpReach("end")
}
