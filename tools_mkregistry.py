#!/usr/bin/env python3
# Generates harness/registry.json (the statement of every bound).
import json
R = {}
def rng(a, b): return list(range(a, b + 1))

R['C16'] = {
 "quick": [
  {"h":"VpC16_HeaderDecode"},{"h":"VpC16_HeaderEncode"},{"h":"VpC16_HeaderShort","x":[[0,1,2,3]]},
  {"h":"VpC16_RunLengthDecode"},{"h":"VpC16_RunLengthEncode"},{"h":"VpC16_ChunkShort","x":[[0,1,3,4]]},
  {"h":"VpC16_StatusVectorDecode"},{"h":"VpC16_StatusVectorEncode","x":[[0,1]]},
  {"h":"VpC16_RecvDeltaDecode","x":[[0,1,2,3]]},{"h":"VpC16_RecvDeltaEncode","x":[[1,2]],"solver":"cvc5-int"},
  {"h":"VpC16_ReceptionReportDecode"},{"h":"VpC16_ReceptionReportEncode"},{"h":"VpC16_ReceptionReportShort","x":[[0,1,23]]},
  {"h":"VpC16_MetricBlockEncode"},{"h":"VpC16_MetricBlockDecode"},
  {"h":"VpC16_XRChunk"},{"h":"VpC16_NackPair"},{"h":"VpC16_SLIEntry"},{"h":"VpC16_FIREntry"}],
 "bounds": "unit-complete: every fixed-width unit is one symbolic query over its whole domain (2^32 header words, 2^33 header field combinations, 2^16 chunk words, all 1-/2-octet deltas, 2^192 reception-report blocks, 2^32 metric-block pairs, 2^16 XR chunks, 2^32 NACK/SLI entries, 2^40 FIR entries); short buffers at every length below the unit size",
 "require_reach": ["reach:end"],
 "outside_claim": ["field values outside their wire width that the encoders mask without error (SLI, CCFB, run length): not part of the property's enumerated limits"],
}
R['C16']['thorough'] = R['C16']['quick']

hi16 = [0,1,2,0x10,0x33,0x55,0x7f,0x80,0x81,0xaa,0xc3,0xf0,0xfe,0xff,0x0f,0x40]
R['C12'] = {
 "quick": [
  {"h":"VpC12_PacketList","x":[hi16]},
  {"h":"VpC12_Range","x":[[0,0x55,0xaa,0xff,0x80,0x01],rng(0,17)]},
  {"h":"VpC12_Pairs","x":[rng(0,5)]}],
 "thorough": [
  {"h":"VpC12_PacketList","x":[rng(0,255)]},
  {"h":"VpC12_Range","x":[rng(0,255),rng(0,17)]},
  {"h":"VpC12_Pairs","x":[rng(0,7)]}],
 "bounds": "PacketList: bitmap high byte in 16 representative values x all 2^8 low bytes x all 2^16 packet IDs per query; Range: 6 high bytes x every stop position 0..17; NackPairsFromSequenceNumbers: every list of length 0..5 of arbitrary uint16 with a free membership witness",
 "bounds_thorough": "PacketList and Range: all 256 high bytes (so all 2^32 pairs) x all stop positions 0..17; NackPairsFromSequenceNumbers: lists of length 0..7",
 "require_reach": ["reach:end"],
 "assumptions": ["Range is compared with PacketList of the same pair; PacketList is compared with the RFC 4585 enumeration"],
 "outside_claim": ["sequence-number lists longer than the stated bound"],
}
# ---- codec shapes shared by C02/C03/C05/C10 (a[0] = kind, then the shape)
K = dict(SR=1,RR=2,SDES=3,BYE=4,APP=5,NACK=6,RRR=7,TWCC=8,CCFB=9,PLI=10,SLI=11,REMB=12,FIR=13,XR=14,RAW=15)
def shapes(level):
    q = []
    def add(kind, *lists):
        q.append({"h": None, "x": [[K[kind]]] + [list(l) for l in lists]})
    big = level == 'thorough'
    add('SR', [0,1,2] + ([31] if big else []), [0,4] + ([8] if big else []))
    add('RR', [0,1,2] + ([31] if big else []), [0])
    add('SDES', [0,1,2], [0,1,2], [0,1,3,4] + ([255] if big else []))
    if big: add('SDES', [31], [1], [1])
    add('BYE', [0,1,2] + ([31] if big else []), [0,1,2,3,4] + ([255] if big else []))
    add('APP', [0,1,2,3,4,5,8])
    add('NACK', [1,2] + ([253] if big else []))
    add('RRR'); add('PLI')
    add('SLI', [0,1,2])
    add('FIR', [1,2] + ([31] if big else []))
    add('REMB', [0,1,2] + ([255] if big else []), [1,46,63] + ([2,17,62] if big else []), [17])
    add('REMB', [1], [0], [0,1,9,17])
    add('CCFB', [0,1,2], [0,1,2,3,4])
    add('TWCC', [0,1,2,3,4,5,6,7,8])
    add('RAW', [4,8,12])
    for k in range(1, 10): add('XR', [k])
    q.append({'h': None, 'a': [[K['XR']]]})
    if big:
        for k1 in range(1, 10):
            for k2 in range(1, 10): add('XR', [k1], [k2])
    else:
        add('XR', [1],[6]); add('XR', [8],[3]); add('XR', [7],[9]); add('XR',[5],[4]); add('XR',[2],[8])
    return q
def codec(h, level):
    out = []
    for c in shapes(level):
        d = dict(c); d['h'] = h; out.append(d)
    return out
for pid, h in [('C02','VpC02'),('C03','VpC03'),('C05','VpC05'),('C10','VpC10')]:
    R[pid] = {"quick": codec(h,'quick'), "thorough": codec(h,'thorough'), "bounds": "wip", "require_reach": ["reach:end"], "opts": {"unwind": 300}}

# ---- C07
minimal = {1:[1,1,0],2:[2,1,0],3:[3,1,1,2],4:[4,1,0],5:[5,4],6:[6,1],7:[7],8:[8,1],9:[9,1,2],10:[10],11:[11,1],12:[12,1,46,17],13:[13,1],14:[14,4],15:[15,8]}
foreign = []
for T in range(1,15):
    for U in range(1,16):
        if T != U: foreign.append([T] + minimal[U])
def dispatch(lens):
    return [{"h":"VpC07_Dispatch","x":[lens,[0,200,201,203,204,206,207]]},
            {"h":"VpC07_Dispatch","x":[[l for l in lens if l <= 20],[202,205]]}]
R['C07'] = {
 "quick": dispatch([4,8,12,16,20,24]) + [{"h":"VpC07_Foreign","a":foreign}],
 "thorough": dispatch([4,8,12,16,20,24,28,32]) + [{"h":"VpC07_Foreign","a":foreign}],
 "bounds": "wip", "require_reach": ["reach:end","reach:row-raw"], "opts": {"unwind": 100},
}

R['C14'] = {
 "quick": [{"h":"VpC14_Decode","x":[rng(0,63)]},{"h":"VpC14_Encode","x":[rng(0,254)]},{"h":"VpC14_Negative","x":[[0,1,100,127,145,200,254]]},
           {"h":"VpC14_RefProps"},{"h":"VpC14_Count","x":[[0,1,2,255]]}],
 "bounds": "decode: all 64 x 2^18 wire pairs (one query per exponent); encode: every finite non-negative float32 (one query per IEEE exponent field 0..254, fraction symbolic, denormals included); negative: 7 exponent fields x all fractions; SSRC lists of length 0,1,2,255",
 "require_reach": ["reach:end"], "opts": {"unwind": 300},
 "assumptions": ["monotonicity, minimal exponent and the rounding gap are proved on the bit-level reference encoder, which VpC14_Encode shows equal to MarshalTo for every finite non-negative float32"],
 "outside_claim": ["NaN and +Inf bitrates (the property quantifies over finite values)"],
}
R['C14']['thorough'] = [dict(c) for c in R['C14']['quick']]
R['C14']['thorough'][2] = {"h":"VpC14_Negative","x":[rng(0,254)]}
R['C14']['thorough'][4] = {"h":"VpC14_Count","x":[[0,1,2,3,100,254,255]]}

R['C01'] = {
 "quick": [{"h":"VpC01_Decode","x":[rng(1,23),rng(0,20)]}],
 "bounds": "wip",
 "opts": {"unwind": 80},
 "require_reach": ["reach:end"],
}
json.dump(R, open('/verif/harness/registry.json', 'w'), indent=1)
print("registry:", ", ".join(f"{k}" for k in R))
