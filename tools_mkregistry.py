#!/usr/bin/env python3
# Generates harness/registry.json (the statement of every bound).
import json
R = {}
def rng(a, b): return list(range(a, b + 1))

R['C16'] = {
 "quick": [
  {"h":"VpC16_HeaderDecode"},{"h":"VpC16_HeaderEncode"},{"h":"VpC16_HeaderShort","x":[[0,1,2,3]]},
  {"h":"VpC16_RunLengthDecode"},{"h":"VpC16_RunLengthEncode"},{"h":"VpC16_ChunkShort","x":[[0,1,3,4]]},
  {"h":"VpC16_StatusVectorDecode"},{"h":"VpC16_StatusVectorEncode","x":[[0,1]]},
  {"h":"VpC16_RecvDeltaDecode","x":[[0,1,2,3]]},{"h":"VpC16_RecvDeltaEncode","x":[[1,2]],"solver":"cvc5-int"},
  {"h":"VpC16_ReceptionReportDecode"},{"h":"VpC16_ReceptionReportEncode"},{"h":"VpC16_ReceptionReportShort","x":[[0,1,23]]},
  {"h":"VpC16_MetricBlockEncode"},{"h":"VpC16_MetricBlockDecode"},
  {"h":"VpC16_XRChunk"},{"h":"VpC16_NackPair"},{"h":"VpC16_SLIEntry"},{"h":"VpC16_FIREntry"}],
 "bounds": "unit-complete: every fixed-width unit is one symbolic query over its whole domain (2^32 header words, 2^33 header field combinations, 2^16 chunk words, all 1-/2-octet deltas, 2^192 reception-report blocks, 2^32 metric-block pairs, 2^16 XR chunks, 2^32 NACK/SLI entries, 2^40 FIR entries); short buffers at every length below the unit size",
 "require_reach": ["reach:end"],
 "outside_claim": ["field values outside their wire width that the encoders mask without error (SLI, CCFB, run length): not part of the property's enumerated limits"],
}
R['C16']['thorough'] = R['C16']['quick']

hi16 = [0,1,2,0x10,0x33,0x55,0x7f,0x80,0x81,0xaa,0xc3,0xf0,0xfe,0xff,0x0f,0x40]
R['C12'] = {
 "quick": [
  {"h":"VpC12_PacketList","x":[hi16]},
  {"h":"VpC12_Range","x":[[0,0x55,0xaa,0xff,0x80,0x01],rng(0,17)]},
  {"h":"VpC12_Pairs","x":[rng(0,5)]}],
 "thorough": [
  {"h":"VpC12_PacketList","x":[rng(0,255)]},
  {"h":"VpC12_Range","x":[rng(0,255),rng(0,17)]},
  {"h":"VpC12_Pairs","x":[rng(0,7)]}],
 "bounds": "PacketList: bitmap high byte in 16 representative values x all 2^8 low bytes x all 2^16 packet IDs per query; Range: 6 high bytes x every stop position 0..17; NackPairsFromSequenceNumbers: every list of length 0..5 of arbitrary uint16 with a free membership witness",
 "bounds_thorough": "PacketList and Range: all 256 high bytes (so all 2^32 pairs) x all stop positions 0..17; NackPairsFromSequenceNumbers: lists of length 0..7",
 "require_reach": ["reach:end"],
 "assumptions": ["Range is compared with PacketList of the same pair; PacketList is compared with the RFC 4585 enumeration"],
 "outside_claim": ["sequence-number lists longer than the stated bound"],
}
# ---- codec shapes shared by C02/C03/C05/C10 (a[0] = kind, then the shape)
K = dict(SR=1,RR=2,SDES=3,BYE=4,APP=5,NACK=6,RRR=7,TWCC=8,CCFB=9,PLI=10,SLI=11,REMB=12,FIR=13,XR=14,RAW=15)
def shapes(level):
    q = []
    def add(kind, *lists):
        q.append({"h": None, "x": [[K[kind]]] + [list(l) for l in lists]})
    big = level == 'thorough'
    add('SR', rng(0,31) if big else [0,1,2,3,11,31], [0,4,8,12] if big else [0,4,8])
    add('RR', rng(0,31) if big else [0,1,2,3,11,31], [0,4,8,12] if big else [0,4,8])
    add('SDES', rng(0,4) if big else [0,1,2,3], rng(0,4) if big else [0,1,2,3], rng(0,9) + [255] if big else [0,1,2,3,4,5])
    if big: add('SDES', [8,31], [1,2], [1,2])
    add('BYE', rng(0,31) if big else [0,1,2,3], rng(0,12) + [255] if big else rng(0,8))
    add('APP', rng(0,40) if big else rng(0,12))
    add('NACK', rng(1,12) + [253] if big else [1,2,3,4])
    add('RRR'); add('PLI')
    add('SLI', rng(0,8) if big else [0,1,2,3])
    add('FIR', rng(1,8) + [31] if big else [1,2,3])
    add('REMB', [0,1,2,3,4,255] if big else [0,1,2,3], rng(1,63) if big else [1,2,17,46,62,63], [17])
    add('REMB', [1], [0], rng(0,17) if big else [0,1,9,17])
    add('CCFB', [0,1,2], rng(0,7) if big else rng(0,6))
    add('TWCC', [0,1,2,3,4,5,6,7,8])
    add('RAW', [4,8,12,16,20,40] if big else [4,8,12])
    for k in range(1, 10): add('XR', [k])
    q.append({'h': None, 'a': [[K['XR']]]})
    for k1 in range(1, 10):
        for k2 in range(1, 10): add('XR', [k1], [k2])
    if big:
        for k1 in [1,3,5,6,8]:
            for k2 in range(1, 10):
                for k3 in [2,4,7,9,8]: add('XR', [k1], [k2], [k3])
    return q
def codec(h, level):
    out = []
    for c in shapes(level):
        d = dict(c); d['h'] = h; out.append(d)
    return out
CODEC_B = 'every packet type with all field values, texts and payload bytes symbolic, for the shapes: SR and RR reports {0..3,11,31} x extension octets {0,4,8}; SDES chunks {0..3} x items per chunk {0..3} x text octets {0..5}; BYE sources {0..3} x reason octets {0..8}; APP data octets {0..12}; NACK pairs {1..4}; RRR; PLI; SLI entries {0..3}; FIR entries {1..3}; REMB SSRCs {0..3} x exponents {1,2,17,46,62,63} (normal mantissa, low bits symbolic) and exponent 0 with mantissa MSB at {0,1,9,17}; CCFB blocks {0,1,2} x metric blocks {0..6} with symbolic begin sequence; TWCC: 9 chunking skeletons (run-length, 1-bit and 2-bit vectors, exact fit, vector overshoot) with symbolic header fields and delta values; XR: the empty report, every single block of the 7 RFC 3611 kinds and 2 unknown-block shapes, and all 81 ordered two-block sequences; Raw {4,8,12} octets'
CODEC_BT = 'every packet type with all field values, texts and payload bytes symbolic, for the shapes: SR and RR reports {0..31} x extension octets {0,4,8,12}; SDES chunks {0..4} x items {0..4} x text octets {0..9,255}, and {8,31} chunks x {1,2} items x {1,2} octets; BYE sources {0..31} x reason octets {0..12,255}; APP data octets {0..40}; NACK pairs {1..12,253}; RRR; PLI; SLI entries {0..8}; FIR entries {1..8,31}; REMB SSRCs {0..4,255} x every exponent 1..63 (normal mantissa) and exponent 0 with mantissa MSB at every position 0..17; CCFB blocks {0,1,2} x metric blocks {0..7} (3 blocks, and 2 blocks with 9 or more metric blocks, did not finish); TWCC: 9 chunking skeletons; XR: empty, 9 single blocks, all 81 ordered pairs and 225 three-block sequences; Raw {4,8,12,16,20,40} octets'
def c05extra():
    # length-focused shapes: every residue mod 4 of the variable-length parts
    return [{"h":"VpC05","x":[[K['RR']],[0,1],rng(1,9)]},{"h":"VpC05","x":[[K['SR']],[0,1],rng(1,9)]},
            {"h":"VpC05","x":[[K['SDES']],[1],[1,2],rng(5,9)]},{"h":"VpC05","x":[[K['BYE']],[1],rng(5,9)]},
            {"h":"VpC05","x":[[K['APP']],[6,7,9]]},{"h":"VpC05","x":[[K['CCFB']],[1],[5]]},{"h":"VpC05","x":[[K['XR']],[10,11,12,13,14,15]]}]
for pid, h in [('C02','VpC02'),('C03','VpC03'),('C05','VpC05'),('C10','VpC10')]:
    R[pid] = {"quick": codec(h,'quick'), "thorough": codec(h,'thorough'), "bounds": CODEC_B, "bounds_thorough": CODEC_BT, "require_reach": ["reach:end"], "opts": {"unwind": 2000}, "opts_thorough": {"unwind": 8000},
        "outside_claim": ["shapes (list lengths, text lengths, block sequences) not listed in the bounds", "RR/SR profile extensions that are not a multiple of four octets (see DESIGN: outside the well-formed domain D of C02/C03)"]}
for t in ('quick','thorough'):
    R['C10'][t] = R['C10'][t] + [{"h":"VpC10","x":[[K['XR']],[12,13,14,15]]},{"h":"VpC10","x":[[K['XR']],[13],[5,13,4]]}]
R['C10']['bounds'] += "; plus XR reports with 1 receipt time, DLRR blocks with 0 and 2 sub-blocks (alone and followed by another block), an 8-octet unknown block"
R['C05']['quick'] += c05extra()
R['C05']['thorough'] += c05extra()
R['C05']['bounds'] += "; plus length-focused shapes: RR and SR profile extensions of 1..9 octets, SDES texts and BYE reasons of 5..9 octets, APP data of 6,7,9 octets, 5 CCFB metric blocks, XR blocks with odd RLE chunk counts (1,3), 1 receipt time, 0 and 2 DLRR sub-blocks, 8-octet unknown block"
R['C05']['bounds_thorough'] += "; plus the length-focused shapes of the quick tier"

# ---- C07
minimal = {1:[1,1,0],2:[2,1,0],3:[3,1,1,2],4:[4,1,0],5:[5,4],6:[6,1],7:[7],8:[8,1],9:[9,1,2],10:[10],11:[11,1],12:[12,1,46,17],13:[13,1],14:[14,4],15:[15,8]}
foreign = []
for T in range(1,15):
    for U in range(1,16):
        if T != U: foreign.append([T] + minimal[U])
# the emptiest well-formed packet of the kinds that have one (header-only or header+SSRC frames)
empty = {1:[1,0,0],2:[2,0,0],3:[3,0,0,0],4:[4,0,0],5:[5,0],11:[11,0],14:[14],15:[15,4]}
for T in range(1,15):
    for U in empty:
        if T != U: foreign.append([T] + empty[U])
def dispatch(lens):
    return [{"h":"VpC07_Dispatch","x":[lens,[0,200,201,203,204,206]]},
            {"h":"VpC07_Dispatch","x":[[l for l in lens if l <= 28],[207]]},
            {"h":"VpC07_Dispatch","x":[[l for l in lens if l <= 20],[202,205]]}]
R['C07'] = {
 "quick": dispatch([4,8,12,16,20,24]) + [{"h":"VpC07_Foreign","a":foreign},{"h":"VpC07_Own","a":[minimal[k] for k in range(1,16)]}],
 "thorough": dispatch([4,8,12,16,20,24,28,32]) + [{"h":"VpC07_Foreign","a":foreign},{"h":"VpC07_Own","a":[minimal[k] for k in range(1,16)]}],
 "bounds": "dispatch: one well-framed frame of 4..24 octets (4..20 for PT 202 and 205) with all 32 count/FMT values and all body bytes symbolic, one query per packet type class {not 200..207, 200, ..., 207}; own output: the Marshal output of a minimal symbolic value of each of the 15 kinds is dispatched back to its type; foreign rejection: all 14x14 ordered pairs of distinct decoder/packet types plus unknown-type raw packets, plus the emptiest well-formed packet of 8 kinds (header-only SDES and BYE, report-less SR and RR, data-less APP, entry-less SLI, block-less XR, 4-octet raw) against every decoder, the foreign packet built from symbolic field values and encoded by the RFC reference encoder",
 "bounds_thorough": "as quick with frames up to 32 octets (XR frames up to 28, SDES and 205 frames up to 20)",
 "require_reach": ["reach:end","reach:row-raw"], "opts": {"unwind": 100},
 "outside_claim": ["frames longer than the bound", "TWCC frames with packet status count above 8"],
}

R['C14'] = {
 "quick": [{"h":"VpC14_Decode","x":[rng(0,63)]},{"h":"VpC14_Encode","x":[rng(0,254)]},{"h":"VpC14_Negative","x":[[0,1,100,127,145,200,254]]},
           {"h":"VpC14_RefProps"},{"h":"VpC14_Count","x":[[0,1,2,255]]}],
 "bounds": "decode: all 64 x 2^18 wire pairs (one query per exponent); encode: every finite non-negative float32 (one query per IEEE exponent field 0..254, fraction symbolic, denormals included); negative: 7 exponent fields x all fractions; SSRC lists of length 0,1,2,255",
 "require_reach": ["reach:end"], "opts": {"unwind": 2000}, "opts_thorough": {"unwind": 8000},
 "assumptions": ["monotonicity, minimal exponent and the rounding gap are proved on the bit-level reference encoder, which VpC14_Encode shows equal to MarshalTo for every finite non-negative float32"],
 "outside_claim": ["NaN and +Inf bitrates (the property quantifies over finite values)"],
}
R['C14']['thorough'] = [dict(c) for c in R['C14']['quick']]
R['C14']['thorough'][2] = {"h":"VpC14_Negative","x":[rng(0,254)]}
R['C14']['thorough'][4] = {"h":"VpC14_Count","x":[[0,1,2,3,100,254,255]]}

R['C08'] = {
 "quick": [{"h":"VpC08_TotalLost","x":[[0,1]]},
  {"h":"VpC08_Counts","x":[[0,1,2,3],[30,31,32,33,63,64,255,256,257,287,288,512]]},{"h":"VpC08_Counts","x":[[4],[254,255,256,257,511,512,513]]},{"h":"VpC08_Counts","x":[[5,6],[252,253,254,255,256,257,509,510,511]]},
  {"h":"VpC08_Counts","x":[[7],[16383,16384,16385]]},
  {"h":"VpC08_Texts","x":[[0,1],[0,1,254,255,256]]},{"h":"VpC08_Texts","x":[[2],[0,3,4,5]]},
  {"h":"VpC08_SmallFields"},{"h":"VpC08_TWCCDelta","x":[[1,2]],"solver":"cvc5-int"},{"h":"VpC08_REMBSign","x":[[0,1,127,200,254]]}],
 "bounds": "value limits over the whole domain of the field (TotalLost: all uint32 through SR and RR; APP subtype, header count, SDES item type: all uint8; TWCC receive delta: all int64 for both size classes, with a following delta that must keep its position; REMB sign: all negative floats of 5 exponent fields); length limits at limit-1, limit, limit+1 and at the counts where an 8-bit count field or byte arithmetic would wrap (256, 257, 287, 288, 512 for the 5-bit counts; 257, 511..513 for REMB; 255..257, 509..511 for NACK/SLI) (31 reports/chunks/sources, 255 REMB SSRCs, 253 NACK/SLI entries, 16384 CCFB metric blocks, 255-octet text/reason, 4-octet APP name) with symbolic edge contents",
 "require_reach": ["reach:end"], "opts": {"unwind": 40000, "alloc": 70000},
 "outside_claim": ["fields the encoders mask without error that the property does not enumerate (SLI First/Number/Picture, CCFB offset/ECN, TWCC reference time and run length, XR T/ToH)"],
}
R['C08']['thorough'] = R['C08']['quick']

R['C11'] = {
 "quick": [{"h":"VpC11_Grammar","x":[[0,1,2,3,4]]},{"h":"VpC11_MemberFails"},
           {"h":"VpC11_Unmarshal","a":[[8,1],[12,2],[16,1,1],[20,1,2],[20,1,1,0],[16,0,2],[24,1,3],[24,1,1,1]]}],
 "bounds": "grammar: every sequence of 0..4 packets whose kinds are symbolic over {SR, RR, SDES, BYE, PLI, APP, XR, Raw}, SDES members with 0..2 chunks x 0..2 items with symbolic item types and text octets (one query per length covers all 8^n kind sequences); member failure: all uint32 TotalLost; Unmarshal agreement: datagrams of 8..24 octets under 8 frame compositions, all bytes symbolic",
 "bounds_thorough": "as quick (sequences of length 5 could not be validated within the session and are not registered)",
 "require_reach": ["reach:end"], "opts": {"unwind": 100},
 "outside_claim": ["sequences longer than the bound", "SDES members with more than 2 chunks or items"],
}
R['C11']['thorough'] = [{"h":"VpC11_Grammar","x":[[0,1,2,3,4]]},{"h":"VpC11_MemberFails"},R['C11']['quick'][2]]

def compositions(words):
    # all ways to split `words` 32-bit words into leading frames (each >= 1 word) plus an optional unframed tail
    out = []
    def rec(rem, acc):
        out.append(list(acc))          # tail of `rem` words left symbolic
        for w in range(1, rem + 1):
            rec(rem - w, acc + [w - 1])
    rec(words, [])
    return out
def framing(maxlen):
    cases = []
    for L in range(0, maxlen + 1):
        if L % 4 == 0:
            for c in compositions(L // 4):
                cases.append([L] + c)
        else:
            for c in compositions(L // 4):
                if sum(x + 1 for x in c) * 4 <= L: cases.append([L] + c)
    # dedupe
    seen = []; 
    for c in cases:
        if c not in seen: seen.append(c)
    return seen
pts = [0,200,201,202,203,204,205,206,207]
pts20 = [200,201,203,204,205,206,207]
# SR/RR frames one word short of (and exactly) holding k reports, followed by a second frame: a decoder that reads
# past its frame end would see the next frame's octets
PEEK = [[48,8,200,0],[52,8,200,0],[72,8,200,0],[28,8,201,0],[32,8,201,0],[52,8,201,0]]
R['C06'] = {
 "quick": [{"h":"VpC06_Framing","a":framing(16)},{"h":"VpC06_Empty"},
           {"h":"VpC06_Local","x":[[4,8,12],[4,8,12],[0],[0]]},
           {"h":"VpC06_Local","x":[[16],[8],pts,[0]]},{"h":"VpC06_Local","x":[[8],[16],[0],pts]},
           {"h":"VpC06_Local","a":PEEK}],
 "thorough": [{"h":"VpC06_Framing","a":[f for f in framing(20) if f not in ([20],[20,0])]},{"h":"VpC06_Empty"},
           {"h":"VpC06_Local","x":[[4,8,12],[4,8,12],[0],[0]]},
           {"h":"VpC06_Local","x":[[16],[8,12],pts,[0]]},{"h":"VpC06_Local","x":[[8,12],[16],[0],pts]},
           {"h":"VpC06_Local","x":[[20],[8,12],pts20,[0]]},{"h":"VpC06_Local","x":[[8,12],[20],[0],pts20]},
           {"h":"VpC06_Local","a":PEEK + [[76,8,200,0],[56,8,201,0],[100,12,200,0]]}],
 "bounds": "framing: every datagram length 0..16 under every composition into leading frames plus an arbitrary symbolic tail (76 shapes; all bytes other than the listed length fields symbolic, including version bits and packet types) against an independent frame walker; locality: SR frames of 48, 52, 72 and RR frames of 28, 32, 52 octets (one word short of, and exactly, k reports) followed by an 8-octet frame; two well-framed frames of {4,8,12}x{4,8,12} octets with symbolic packet types and contents, and 16-octet frames of each packet-type class next to an 8-octet frame, compared packet-by-packet with the separately decoded frames; empty and nil datagrams",
 "bounds_thorough": "framing up to 20 octets (the two 20-octet shapes whose first frame has a symbolic length field did not finish and are left out); locality with 16-octet frames of every packet-type class and 20-octet frames of the classes 200, 201, 203..207 next to 8- and 12-octet frames, and larger SR/RR peek frames",
 "require_reach": ["reach:end"], "opts": {"unwind": 100},
 "outside_claim": ["datagrams longer than the bound", "TWCC frames with packet status count above 8"],
}

XR_TYPED_Q = [[48,207,-1,6],[44,207,-1,7],[20,207,-1,4],[16,207,-1,200]]
XR_TYPED_T = XR_TYPED_Q + [[24,207,-1,4],[52,207,-1,6]]
def c09(level):
    big = level == 'thorough'
    L = [4,8,12,16,20,24,28] + ([32,36] if big else [])
    up = lambda m: [l for l in L if l <= m]
    q = [{"h":"VpC09","x":[L,[0,200,201,204],[-1]]},
         {"h":"VpC09","x":[up(16),[202,203,206],[-1]]},
         {"h":"VpC09","x":[up(12),[207],[-1]]},
         {"h":"VpC09","x":[L,[205],[1,5,0]]},
         {"h":"VpC09","x":[up(20),[205],[11]]},
         {"h":"VpC09","x":[up(20),[205],[15]]},
         # count*24 passes 255 from 11 reports on: one RR and one SR frame with 11 reports
         {"h":"VpC09","a":[[272,201,11],[292,200,11]]},
         # XR frames with the type of the first block fixed: [octets, 207, -1, block type]
         {"h":"VpC09","a":XR_TYPED_T if big else XR_TYPED_Q}]
    return q
R['C09'] = {"quick": c09('quick'), "thorough": c09('thorough'),
 "bounds": "one well-framed frame, all bytes other than version, packet type and length symbolic: 4..28 octets for unknown types, SR, RR, APP and RTPFB FMT 1/5/other; 4..16 for SDES, BYE and PSFB (every FMT); 4..12 for XR, plus XR frames whose first block type is fixed (48 octets statistics summary, 44 VoIP metrics, 20 receiver reference time, 16 unknown; RLE and DLRR blocks of 24 octets did not finish or hit an unsupported engine path and are not claimed); one RR (272 octets) and one SR (292 octets) frame with 11 reports; 4..20 for CCFB and TWCC (status count <= 8); decode, re-encode (panic freedom), re-decode on every possible output length and field-wise comparison",
 "bounds_thorough": "as quick with frames up to 36 octets for the packet-type classes {not 200..207, 200, 201, 204} and the 205 FMT classes 1, 5 and other; SDES, BYE, PSFB, XR, CCFB and TWCC frames as in the quick tier (longer ones did not finish within 30 minutes)",
 "require_reach": ["reach:end","reach:accepted"], "opts": {"unwind": 100},
 "assumptions": ["TransportLayerCC is compared only when its decoded header is consistent with its content, as the property states"],
 "outside_claim": ["datagrams with several frames (locality is C06)", "frames longer than the bound"]}

def c17(level):
    big = level == 'thorough'
    q = [{"h":"VpC17_REMB","x":[rng(0,255)]},{"h":"VpC17_Enums"},
         {"h":"VpC17_Decoded","x":[[4,8,12,16,20,24] + ([28] if big else []),[0,200,201,204],[-1]]},
         {"h":"VpC17_Decoded","x":[[4,8,12,16],[202,203,206],[-1]]},
         {"h":"VpC17_Decoded","x":[[8,12],[207],[-1]]},
         {"h":"VpC17_Decoded","x":[[12,16,20],[205],[1,5,11,15,0]]}]
    for c in shapes(level):
        d = dict(c); d['h'] = 'VpC17_WellFormed'; q.append(d)
    return q
R['C17'] = {"quick": c17('quick'), "thorough": c17('thorough'),
 "bounds": "REMB String over every float32 bit pattern (one query per exponent field, sign and fraction symbolic); all 256 values of PacketType, SDESType, BlockTypeType, TTLorHopLimitType and all 2^16 XR chunks; String/stringify/CompoundPacket.String of every packet decoded from one symbolic frame (4..24 octets for unknown types, SR, RR, APP; 4..16 for SDES, BYE, PSFB; 8..12 for XR; 12..20 for RTPFB incl. CCFB and TWCC with status count <= 8); String of the well-formed values of the codec shapes alone and inside a compound",
 "require_reach": ["reach:end","reach:accepted"], "opts": {"unwind": 2000, "fmtmethods": 1}, "opts_thorough": {"unwind": 8000},
 "assumptions": ["fmt.Sprintf/Sprint and strings.* are stubs that return an opaque string and do not panic; String/Error methods of their operands are executed, and a panic inside such a nested call is recovered (as fmt does), so only panics in package rtcp's own code outside fmt are reported"],
 "outside_claim": ["panics inside package fmt or strings", "frames longer than the bound"]}
def c04(level):
    q = codec('VpC04_Canonical', level)
    q += [{"h":"VpC04_CountInflated","a":[[1,0,0],[1,1,0],[1,2,4],[2,0,0],[2,1,0],[2,1,4],[3,0,0,0],[3,1,1,2],[3,2,1,3],[4,0,0],[4,1,0],[4,2,3],[4,1,4]]},
          {"h":"VpC04_Reserved","a":[[14]] + [[14,k] for k in range(1,8)] + [[13,1],[13,2]]},
          {"h":"VpC04_APPPadding","a":[[0,4],[0,8],[1,3],[2,2],[3,1],[3,5],[4,4],[5,3],[8,4]]},
          {"h":"VpC04_CCFBStray"}]
    return q
R['C04'] = {"quick": c04('quick'), "thorough": c04('thorough'),
 "bounds": "canonical RFC encodings (independent reference encoder) of every model value of the codec shapes: " + CODEC_B + "; count-inflated SR/RR/SDES/BYE headers (inflation d symbolic) on 13 shapes; reserved bits: XR header count bits and the reserved bits/octets of each single XR block kind, FIR reserved octets; APP packets with the padding bit for 9 (data, padding) length pairs with symbolic padding octets; CCFB not-received metric blocks with all 2^15 stray bit patterns",
 "bounds_thorough": "as quick on the thorough codec shapes",
 "require_reach": ["reach:end"], "opts": {"unwind": 2000}, "opts_thorough": {"unwind": 8000},
 "assumptions": ["alternative TWCC chunkings are checked under C13, unnormalised REMB pairs under C14 (all 2^24 wire pairs)", "CCFB num_reports is written in the library's pinned n-1 convention (RFC text unavailable offline)"],
 "outside_claim": ["shapes not listed", "SDES chunks with more than the minimal null padding"]}
def c18(level):
    big = level == 'thorough'
    q = []
    for c in shapes(level):
        d = dict(c); d['h'] = 'VpC18_Ops'; q.append(d)
    L = [4,8,12,16,20] + ([24] if big else [])
    q += [{"h":"VpC18_Decode","x":[L,[0,200,201,204],[-1]]},
          {"h":"VpC18_Decode","x":[[l for l in L if l <= 16],[202,203,206],[-1]]},
          {"h":"VpC18_Decode","x":[[8,12],[207],[-1]]},
          {"h":"VpC18_Decode","x":[[12,16,20],[205],[1,5,11,15,0]]}]
    # length-focused shapes of C05 (extensions/texts/data of every residue mod 4, odd XR lists)
    for c in c05extra():
        d = dict(c); d['h'] = 'VpC18_Ops'; q.append(d)
    # read-only operations on packets decoded out of a larger receive buffer
    q += [{"h":"VpC18_DecodedOps","x":[[4,8,12,16,20],[0,200,201,204],[-1]]},
          {"h":"VpC18_DecodedOps","x":[[4,8,12,16],[202,203,206],[-1]]},
          {"h":"VpC18_DecodedOps","x":[[8,12],[207],[-1]]},
          {"h":"VpC18_DecodedOps","x":[[12,16,20],[205],[1,5,11,15,0]]},
          {"h":"VpC18_DecodedOpsDirect","a":[[n,200] for n in range(28,36)] + [[n,201] for n in range(8,16)] + [[n,204] for n in range(12,20)]}]
    return q
R['C18'] = {"quick": c18('quick'), "thorough": c18('thorough'),
 "bounds": "frame conditions for all field values of the codec shapes (" + CODEC_B + ") and the length-focused shapes of C05: Marshal, MarshalSize, DestinationSSRC, String executed twice in interleaved order on a frozen value; the same operations on the packets decoded from a frame of 4..20 octets (4..16 SDES/BYE/PSFB, 8..12 XR) lying in a larger receive buffer, and on SR (28..35 octets), RR (8..15) and APP (12..19) decoded by their own decoders, must leave the receive buffer unchanged; decode frame conditions on one symbolic frame of 4..20 octets per packet-type class (4..16 for SDES/BYE/PSFB, 8..12 XR, 12..20 RTPFB), through rtcp.Unmarshal and CompoundPacket.Unmarshal",
 "require_reach": ["reach:end"], "opts": {"unwind": 2000, "fmtmethods": 1}, "opts_thorough": {"unwind": 8000},
 "assumptions": ["the schedule/history quantifier is discharged by reduction (DESIGN C18): the solver decides, for all inputs in the bound, that no operation stores into an object that existed before the call (other than the documented XRHeader fields), into its input buffer or into a package-level variable, and that repeated calls return equal results; freedom from data races and schedule independence then follow from the Go memory model by a pencil-and-paper non-interference argument, not by exploring interleavings", "synchronisation inside fmt/reflect (sync.Pool, type caches) is trusted"],
 "outside_claim": ["actual exploration of goroutine interleavings", "shapes and frame lengths beyond the bound"]}
kinds9 = rng(1,9)
R['C15'] = {
 "quick": [{"h":"VpC15","a":[[]] + [[k] for k in kinds9] + [[k1,k2] for k1 in kinds9 for k2 in kinds9]}],
 "thorough": [{"h":"VpC15","a":[[]] + [[k] for k in kinds9] + [[k1,k2] for k1 in kinds9 for k2 in kinds9] + [[k1,k2,k3] for k1 in [1,3,5,6,8] for k2 in kinds9 for k3 in [2,4,7,9,8]]}],
 "bounds": "every sequence of 0, 1 and 2 report blocks over the 7 RFC 3611 kinds and two unknown-block shapes (block type symbolic over 0 and 8..255, 0 or 4 content octets), all scalar fields symbolic, RLE blocks with 2 chunks, 2 receipt times, 1 DLRR sub-block",
 "bounds_thorough": "as quick plus 225 three-block sequences",
 "require_reach": ["reach:end"], "opts": {"unwind": 2000}, "opts_thorough": {"unwind": 8000},
 "assumptions": ["reflect is modelled by the engine against go/types of the current source (struct field order, tags, exportedness, sizes)"],
 "outside_claim": ["longer block sequences and other list lengths", "RLE blocks with an odd number of chunks (recorded under C05)"]}
# TWCC packets with typed chunks: [status count, delta octets, kinds...]; kinds: 0 run-length chunk with symbolic
# symbol and length, 1 one-bit vector, 2 two-bit vector (14 symbolic payload bits), 100+e run-length chunk of clipped length e
TYPED_Q = [[14,0,1],[14,7,1],[14,14,1],[7,0,2],[1,2,0],[3,3,0],[5,10,0],[3,4,1],[10,8,1,103]]
TYPED_T = TYPED_Q + [[14,d,1] for d in (1,2,3,5,9,11,13,15,16)] + [[c,d,0] for c in (1,2,3,4,6) for d in (0,1,2,4,6,8,12)] + [[8,8,102,1],[7,7,2],[7,14,2],[9,6,1],[12,6,103,1]]
R['C13'] = {
 "quick": [{"h":"VpC13","a":[[20,8],[20,65535]]},{"h":"VpC13_Skeleton","x":[rng(0,16),[-1,0,1,3]]},
           {"h":"VpC13_Run","x":[[0,1,3,7],[0,1]]},{"h":"VpC13_Chunkings","x":[[0,1,2,3,4],[0,1,2]]},
           {"h":"VpC13_Typed","a":TYPED_Q}],
 "thorough": [{"h":"VpC13","a":[[20,8],[20,65535]]},{"h":"VpC13_Skeleton","x":[rng(0,16),[-2,-1,0,1,2,3,4]]},
           {"h":"VpC13_Run","x":[[0,1,2,3,5,7],[0,1,2]]},{"h":"VpC13_Chunkings","x":[[0,1,2,3,4],[0,1,2,3,4]]},
           {"h":"VpC13_Typed","a":TYPED_T}],
 "bounds": "typed chunks: a single one-bit or two-bit status vector chunk with all 14 payload bits symbolic, a single run-length chunk with symbolic symbol and run length, and a one-bit vector followed by a run of clipped length 3, for the (status count, delta octets) pairs listed in the registry, header fields and delta octets symbolic, status count covered by the chunks; header-only packets with any status count; 17 chunk sequences (run-length, one-bit and two-bit vector chunks and mixes, first and later runs longer than the remaining count, vectors overshooting it, reserved symbol, empty run, exact fit) x {one octet short, exact, 1 and 3 surplus octets} with all header fields and delta octets symbolic; one run-length chunk with symbolic symbol and symbolic 13-bit run length for status counts {0,1,3,7} x delta areas of {0,1} octets; 5 pairs of different chunkings of the same status sequence; the decoder is compared with an independent expansion of the raw bytes",
 "bounds_thorough": "as quick with more surplus/deficit octets, status counts {0,1,2,3,5,7} and delta areas of 0..2 octets for the symbolic run",
 "require_reach": ["reach:end","reach:accepted"], "opts": {"unwind": 200},
 "assumptions": ["status-chunk words are enumerated (17 sequences), or their kinds are fixed per case with symbolic payload bits (typed cases: one or two chunks, status count covered by the chunks); packets whose chunk kinds are symbolic as well exceeded the solver budget and are outside the claim"],
 "outside_claim": ["chunk sequences with symbolic kinds, symbolic payload bits in more than two chunks, more than 3 chunks, status counts above the bound, the uint16 counter wrap near 65535 (documented under C01)"]}

cheap = [1,2,4,5,6,7,10,11,12,13,15,17,18,20,21,22,23]
def c01(level):
    big = level == 'thorough'
    q = [{"h":"VpC01_Decode","x":[cheap, rng(0, 40 if big else 32)]},
         {"h":"VpC01_Decode","x":[[3,19], rng(0, 20 if big else 18)]},
         {"h":"VpC01_Decode","x":[[14], rng(0, 26 if big else 22)]},
         {"h":"VpC01_Decode","x":[[9], rng(0, 32 if big else 30)]},
         {"h":"VpC01_Decode","x":[[8], rng(0, 22)]}]
    q.append({"h":"VpC01_TWCCTyped","a":TYPED_T if big else TYPED_Q,"solver":"z3-new"})
    q.append({"h":"VpC01_XRBlock","a":[[6,n] for n in range(8,53)]+[[7,n] for n in range(8,49)]+[[t,n] for t in (1,2,3,4) for n in range(8,29 if big else 25)]+[[5,n] for n in range(8,25 if big else 21)]+[[200,n] for n in range(8,25 if big else 21)]})
    q.append({"h":"VpC01_TWCCWrap","a":[[3]],"opts":{"unwind":250000,"alloc":300000}})
    fr = framing(16 if big else 12)
    # datagrams of at most 16 octets: no loop of the decoders has more than 17 legitimate iterations
    q.append({"h":"VpC01_Datagram","a":[[0] + f for f in fr] + [[16] + f for f in fr],"opts":{"unwind":24}})
    return q
R['C01'] = {
 "quick": c01('quick'), "thorough": c01('thorough'),
 "bounds": "every buffer length 0..32 for the 17 fixed-layout decoders and sub-decoders, 0..18 for SourceDescription and SourceDescriptionChunk, 0..22 for ExtendedReport (and, with the type of the first report block fixed: 8..52 octets for statistics-summary, 8..48 for VoIP-metrics, 8..24 for the RLE and receiver-reference-time blocks, 8..20 for DLRR and unknown blocks), 0..30 for CCFeedbackReport, 0..22 for TransportLayerCC (packet status count <= 8), a 76-octet TransportLayerCC packet with status count 65535 whose chunk area repeats 3 times (8 runs of 8191 received packets, one all-ones vector) with symbolic header fields (the status-counter wrap), plus TransportLayerCC packets of up to 36 octets with typed chunks (one symbolic one-bit/two-bit vector or run-length chunk, or a vector followed by a run; status counts up to 14; the cases of C13); datagram entry points (rtcp.Unmarshal, CompoundPacket.Unmarshal): every length 0..12 under every composition into frames plus arbitrary tail; all byte contents symbolic; every loop unwound under an unwinding assertion (limit 80); allocation counted against 4 MiB + 64 bytes per input byte",
 "bounds_thorough": "as quick with lengths 0..40 (fixed-layout), 0..20 (SDES), 0..26 (XR), 0..32 (CCFB; 34..36 octets finished in one run and not in another, so they are not registered), datagrams 0..16, and the thorough list of typed TWCC cases",
 "opts": {"unwind": 80},
 "require_reach": ["reach:end"],
 "assumptions": ["TransportLayerCC with fully symbolic bytes: packet status count <= 8; larger counts only in the typed-chunk cases and in the concrete-chunk counter-wrap case"],
 "outside_claim": ["inputs longer than the stated lengths", "TransportLayerCC packets with fully symbolic chunk words and packet status counts above 8; chunk sequences near the 16-bit status counter limit other than the registered one (the wrap found there was repaired by fix commit 0f84397)", "Go runtime allocator slack, stack depth"],
}

for pid in ('C06','C12','C13'):
    R[pid]['solver'] = 'z3-new'
json.dump(R, open('/verif/harness/registry.json', 'w'), indent=1)
print("registry:", ", ".join(f"{k}" for k in R))
